use rawdb::Database;
use tempfile::TempDir;
use vecdb::*;

#[test]
fn import_then_forced_import_keeps_data() {
    let temp = TempDir::new().unwrap();
    let db = Database::open(temp.path()).unwrap();
    {
        let mut v: BytesVec<usize, u32> = BytesVec::import(&db, "x", Version::TWO).unwrap();
        for i in 0..5 { v.push(i); }
        v.write().unwrap();
        println!("after import+write len={}", v.len());
    }
    {
        let v: BytesVec<usize, u32> = BytesVec::forced_import(&db, "x", Version::TWO).unwrap();
        println!("forced_import after import: len={} (expected 5)", v.len());
    }
    {
        let mut v: BytesVec<usize, u32> = BytesVec::forced_import(&db, "y", Version::TWO).unwrap();
        for i in 0..5 { v.push(i); }
        v.write().unwrap();
    }
    {
        let r: Result<BytesVec<usize, u32>> = BytesVec::import(&db, "y", Version::TWO);
        println!("import after forced_import: {:?}", r.as_ref().map(|v| v.len()).map_err(|e| e.to_string()));
    }
}

#[test]
fn ro_clone_after_rollback() {
    let temp = TempDir::new().unwrap();
    let db = Database::open(temp.path()).unwrap();
    let mut options: ImportOptions = (&db, "r", Version::TWO).into();
    options = options.with_saved_stamped_changes(10);
    let mut v: BytesVec<usize, u32> = BytesVec::forced_import_with(options).unwrap();
    for i in 1..=4 { v.push(i); }
    v.stamped_write_with_changes(Stamp::new(1)).unwrap();
    v.truncate_if_needed_at(2).unwrap();
    v.push(9);
    v.stamped_write_with_changes(Stamp::new(2)).unwrap();
    println!("S1: {:?}", v.collect());
    v.rollback().unwrap();
    println!("after rollback rw: {:?} stored_len={} real={}", v.collect(), v.stored_len(), v.real_stored_len());
    let ro = StoredVec::read_only_clone(&v);
    println!("after rollback ro: len={} {:?}", ro.len(), ro.collect());
    println!("ro collect_one(2)={:?} (3) = {:?}", ro.collect_one_at(2), ro.collect_one_at(3));
    let rd = v.reader();
    println!("VecReader len={} get(2)={} get(3)={}", rd.len(), rd.get(2), rd.get(3));
    println!("region len bytes={}", v.region().meta().len());
}
