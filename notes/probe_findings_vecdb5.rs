use rawdb::Database;
use tempfile::TempDir;
use vecdb::*;

fn run<V: StoredVec<I = usize, T = u32>>(tag: &str, use_before: bool) {
    let temp = TempDir::new().unwrap();
    let db = Database::open(temp.path()).unwrap();
    let o: ImportOptions = (&db, "a", Version::TWO).into();
    let mut v: V = V::forced_import_with(o.with_saved_stamped_changes(10)).unwrap();
    for s in 1..=3u32 { v.push(s * 10); v.stamped_write_with_changes(Stamp::new(s as u64)).unwrap(); }
    if use_before { v.rollback_before(Stamp::new(3)).unwrap(); } else { v.rollback().unwrap(); }
    println!("[{tag} before={use_before}] after rollback: stamp={:?} {:?}", v.stamp(), v.collect());
    v.push(50); v.stamped_write_with_changes(Stamp::new(3)).unwrap();   // re-commit the same stamp: no abandoned record
    println!("[{tag} before={use_before}] S3' = {:?}", v.collect());
    let r = v.rollback();
    println!("[{tag} before={use_before}] rollback -> {:?}; stamp={:?} contents={:?} (expected stamp 2, [10, 20])", r.map_err(|e| e.to_string()), v.stamp(), v.collect());
}
#[test]
fn probes() {
    run::<BytesVec<usize, u32>>("bytes", false); run::<BytesVec<usize, u32>>("bytes", true);
    run::<PcoVec<usize, u32>>("pco", false); run::<PcoVec<usize, u32>>("pco", true);
}
