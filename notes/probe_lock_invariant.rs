use vstd::prelude::*;
verus! {

pub struct Pages { pub vec: Vec<u64>, pub change_at: Option<usize> }
impl Pages {
    pub open spec fn wf(&self) -> bool { self.change_at matches Some(c) ==> c <= self.vec@.len() }
    pub fn truncate(&mut self, page_index: usize)
        requires old(self).wf()
        ensures final(self).wf(), final(self).vec@ == old(self).vec@.take(if page_index <= old(self).vec@.len() { page_index as int } else { old(self).vec@.len() as int })
    {
        self.vec.truncate(page_index);
        if self.change_at.is_none() { self.change_at = Some(self.vec.len()); }
        else if let Some(c) = self.change_at { if c > self.vec.len() { self.change_at = Some(self.vec.len()); } }
    }
}

#[verifier::external_body]
pub struct PagesLock { _p: () }
impl PagesLock {
    // lock-as-invariant shim: acquiring yields some Pages satisfying wf
    #[verifier::external_body]
    pub fn write(&self) -> (g: &mut Pages)
        ensures g.wf()
    { unimplemented!() }
}

pub struct CVec { pub pages: PagesLock, pub stored_len: usize }

impl CVec {
    pub fn reset(&mut self)
    {
        let pages = self.pages.write();
        pages.truncate(0);
        self.stored_len = 0;
        assert(pages.wf());   // release obligation
    }
}
fn main() {}
}
