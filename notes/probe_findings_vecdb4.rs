use rawdb::Database;
use tempfile::TempDir;
use vecdb::*;

fn run<V: StoredVec<I = usize, T = u32>>(tag: &str, k: u16) {
    let temp = TempDir::new().unwrap();
    let db = Database::open(temp.path()).unwrap();
    let o: ImportOptions = (&db, "a", Version::TWO).into();
    let mut v: V = V::forced_import_with(o.with_saved_stamped_changes(k)).unwrap();
    for s in 1..=3u32 { v.push(s * 10); v.stamped_write_with_changes(Stamp::new(s as u64)).unwrap(); }
    v.rollback().unwrap();                       // abandon stamp 3
    println!("[{tag} k={k}] after rollback: stamp={:?} {:?}", v.stamp(), v.collect());
    v.push(50); v.stamped_write_with_changes(Stamp::new(5)).unwrap();   // commit skips to 5
    let mut files: Vec<_> = std::fs::read_dir(temp.path().join("changes").join("a/usize")).unwrap().map(|e| e.unwrap().file_name().into_string().unwrap()).collect();
    files.sort();
    println!("[{tag} k={k}] change files: {:?}  contents {:?}", files, v.collect());
    let r = v.rollback_before(Stamp::new(2));
    println!("[{tag} k={k}] rollback_before(2) -> {:?}; stamp={:?} contents={:?} (expected Ok(1), [10])", r.map_err(|e| e.to_string()), v.stamp(), v.collect());
}
#[test]
fn probes() { run::<BytesVec<usize, u32>>("bytes", 10); run::<PcoVec<usize, u32>>("pco", 10); run::<BytesVec<usize, u32>>("bytes", 3); }
