#![feature(allocator_api)]
use vstd::prelude::*;
verus! {

global size_of usize == 8;

pub const PAGE_SIZE: usize = 4096;
pub const SIZE_OF_REGION_METADATA: usize = PAGE_SIZE;
pub const SIZE_OF_U64: usize = 8;
pub const MAX_REGION_ID_LEN: usize = 1024;

// ---- prelude: byte codecs of std (assumed) ----
pub uninterp spec fn le64(x: u64) -> Seq<u8>;
pub uninterp spec fn un_le64(s: Seq<u8>) -> u64;
pub broadcast proof fn le64_props(x: u64)
    ensures #![trigger le64(x)] le64(x).len() == 8, un_le64(le64(x)) == x
{ admit(); }   // prelude axiom: to_le_bytes/from_le_bytes are inverse, 8 bytes

#[verifier::external_body]
pub fn u64_to_le_bytes(x: u64) -> (r: [u8; 8]) ensures r@ == le64(x) { x.to_le_bytes() }
#[verifier::external_body]
pub fn u64_from_le_slice(s: &[u8]) -> (r: u64) requires s@.len() == 8 ensures r == un_le64(s@) { u64::from_le_bytes(s.try_into().unwrap()) }

// N7 idiom: bytes[a..b].copy_from_slice(src)
#[verifier::external_body]
pub fn copy_into(dst: &mut [u8; 4096], at: usize, src: &[u8])
    requires at + src@.len() <= 4096,
    ensures final(dst)@ == old(dst)@.subrange(0, at as int) + src@ + old(dst)@.subrange(at + src@.len(), 4096),
{ dst[at..at + src.len()].copy_from_slice(src) }

// N7 idiom: &bytes[a..b]
#[verifier::external_body]
pub fn sub<'a>(s: &'a [u8], a: usize, b: usize) -> (r: &'a [u8])
    requires a <= b <= s@.len(), ensures r@ == s@.subrange(a as int, b as int)
{ &s[a..b] }

// id treated as opaque valid-utf8 byte string
#[verifier::external_body]
pub struct IdStr { s: String }
impl IdStr {
    pub uninterp spec fn bytes(&self) -> Seq<u8>;
    #[verifier::external_body]
    pub fn as_bytes(&self) -> (r: &[u8]) ensures r@ == self.bytes() { self.s.as_bytes() }
    #[verifier::external_body]
    pub fn from_utf8(v: &[u8]) -> (r: Result<IdStr, ()>) ensures r matches Ok(s) ==> s.bytes() == v@
    { match String::from_utf8(v.to_vec()) { Ok(s) => Ok(IdStr { s }), Err(_) => Err(()) } }
}

pub struct RegionMetadata { pub start: usize, pub len: usize, pub reserved: usize, pub id: IdStr }

pub enum Error { InvalidMetadataSize, EmptyMetadata, CorruptedMetadata, InvalidRegionId }

impl RegionMetadata {
    pub open spec fn wf(&self) -> bool {
        &&& self.start % PAGE_SIZE == 0
        &&& self.reserved >= PAGE_SIZE && self.reserved % PAGE_SIZE == 0
        &&& self.len <= self.reserved
        &&& self.id.bytes().len() <= MAX_REGION_ID_LEN
    }

    pub fn to_bytes(&self) -> (bytes: [u8; SIZE_OF_REGION_METADATA])
        requires self.id.bytes().len() <= MAX_REGION_ID_LEN,
        ensures
            bytes@.subrange(0, 8) == le64(self.start as u64),
            bytes@.subrange(8, 16) == le64(self.len as u64),
            bytes@.subrange(16, 24) == le64(self.reserved as u64),
            bytes@.subrange(24, 32) == le64(self.id.bytes().len() as u64),
            bytes@.subrange(32, 32 + self.id.bytes().len() as int) == self.id.bytes(),
    {
        broadcast use le64_props;
        let mut pos = 0;
        let mut bytes = [0u8; SIZE_OF_REGION_METADATA];

        copy_into(&mut bytes, pos, &u64_to_le_bytes(self.start as u64));
        pos += SIZE_OF_U64;

        copy_into(&mut bytes, pos, &u64_to_le_bytes(self.len as u64));
        pos += SIZE_OF_U64;

        copy_into(&mut bytes, pos, &u64_to_le_bytes(self.reserved as u64));
        pos += SIZE_OF_U64;

        let id_bytes = self.id.as_bytes();
        let id_len = id_bytes.len();
        copy_into(&mut bytes, pos, &u64_to_le_bytes(id_len as u64));
        pos += SIZE_OF_U64;

        copy_into(&mut bytes, pos, id_bytes);

        bytes
    }

    pub fn from_bytes(bytes: &[u8]) -> (r: Result<Self, Error>)
        ensures r matches Ok(m) ==> m.wf()
            && bytes@.len() == SIZE_OF_REGION_METADATA
            && m.start == un_le64(bytes@.subrange(0, 8)) && m.len == un_le64(bytes@.subrange(8, 16))
            && m.reserved == un_le64(bytes@.subrange(16, 24))
            && m.id.bytes() == bytes@.subrange(32, 32 + un_le64(bytes@.subrange(24, 32)) as int),
    {
        if bytes.len() != SIZE_OF_REGION_METADATA {
            return Err(Error::InvalidMetadataSize);
        }

        let start = u64_from_le_slice(sub(bytes, 0, 8)) as usize;
        let len = u64_from_le_slice(sub(bytes, 8, 16)) as usize;
        let reserved = u64_from_le_slice(sub(bytes, 16, 24)) as usize;
        let id_len = u64_from_le_slice(sub(bytes, 24, 32)) as usize;

        if start == 0 && len == 0 && reserved == 0 && id_len == 0 {
            return Err(Error::EmptyMetadata);
        }

        if id_len > MAX_REGION_ID_LEN {
            return Err(Error::CorruptedMetadata);
        }

        if 32 + id_len > SIZE_OF_REGION_METADATA {
            return Err(Error::CorruptedMetadata);
        }

        let id = match IdStr::from_utf8(sub(bytes, 32, 32 + id_len)) { Ok(s) => s, Err(_) => return Err(Error::InvalidRegionId) };

        if !(start % PAGE_SIZE == 0) {
            return Err(Error::CorruptedMetadata);
        }
        if reserved < PAGE_SIZE {
            return Err(Error::CorruptedMetadata);
        }
        if !(reserved % PAGE_SIZE == 0) {
            return Err(Error::CorruptedMetadata);
        }
        if len > reserved {
            return Err(Error::CorruptedMetadata);
        }

        Ok(Self { id, start, len, reserved })
    }
}

// [C17.meta-rt] round trip as a lemma over the two contracts
proof fn roundtrip(m: RegionMetadata, b: Seq<u8>, r: RegionMetadata)
    requires
        m.wf(), b.len() == 4096,
        b.subrange(0, 8) == le64(m.start as u64), b.subrange(8, 16) == le64(m.len as u64),
        b.subrange(16, 24) == le64(m.reserved as u64), b.subrange(24, 32) == le64(m.id.bytes().len() as u64),
        b.subrange(32, 32 + m.id.bytes().len() as int) == m.id.bytes(),
        r.start == un_le64(b.subrange(0, 8)), r.len == un_le64(b.subrange(8, 16)), r.reserved == un_le64(b.subrange(16, 24)),
        r.id.bytes() == b.subrange(32, 32 + un_le64(b.subrange(24, 32)) as int),
    ensures r.start == m.start, r.len == m.len, r.reserved == m.reserved, r.id.bytes() == m.id.bytes(),
{
    broadcast use le64_props;
}

fn main() {}
}
