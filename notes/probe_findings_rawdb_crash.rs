use rawdb::*;
use std::fs;
#[test]
fn flush_fast_path_promotes_without_sync() {
    let dir = tempfile::TempDir::new().unwrap();
    let p = dir.path().join("db");
    let db = Database::open(&p).unwrap();
    let a = db.create_region_if_needed("a").unwrap();
    let b = db.create_region_if_needed("b").unwrap();
    a.write(&[1u8; 100]).unwrap();
    b.write(&[2u8; 100]).unwrap();
    println!("flush#1 -> {}", db.flush().unwrap());
    let durable_regions = fs::read(p.join("regions")).unwrap(); // everything synced here
    println!("a: start={} b: start={}", a.meta().start(), b.meta().start());
    a.remove().unwrap();
    b.remove().unwrap();
    println!("flush#2 -> {} (0 = fast path, nothing synced)", db.flush().unwrap());
    println!("holes after flush#2: {:?}", db.layout().start_to_hole());
    let c = db.create_region_if_needed("c").unwrap();
    c.write(&[3u8; 5000]).unwrap();
    println!("c: index={} start={} reserved={}", c.index(), c.meta().start(), c.meta().reserved());
    // crash now: slot page 0 (c) happened to be written back by the OS, slot page 1 (zeroing of b) was not.
    let cache_regions = fs::read(p.join("regions")).unwrap();
    let mut img = cache_regions.clone();
    img[4096..8192].copy_from_slice(&durable_regions[4096..8192]);
    let crash = dir.path().join("crash");
    fs::create_dir_all(&crash).unwrap();
    fs::write(crash.join("regions"), &img).unwrap();
    fs::copy(p.join("data"), crash.join("data")).unwrap();
    let db2 = Database::open(&crash).unwrap();
    let regs = db2.regions();
    for r in regs.index_to_region().iter().flatten() {
        let m = r.meta();
        println!("recovered '{}' [{}..{})", m.id(), m.start(), m.start() + m.reserved());
    }
}
