#![feature(allocator_api)]
use vstd::prelude::*;
use std::collections::BTreeMap;

verus! {


pub assume_specification<T, A: std::alloc::Allocator, F: FnMut(&T) -> bool> [std::vec::Vec::<T, A>::retain] (v: &mut Vec<T, A>, f: F)
    ensures
        final(v)@.len() <= old(v)@.len(),
        forall|i: int| 0 <= i < final(v)@.len() ==> old(v)@.contains(#[trigger] final(v)@[i]) && f.ensures((&final(v)@[i],), true),
        forall|i: int| 0 <= i < old(v)@.len() && f.ensures((&old(v)@[i],), true) ==> final(v)@.contains(#[trigger] old(v)@[i]),
;

pub struct Layout {
    start_to_hole: BTreeMap<usize, usize>,
    hole_to_starts: BTreeMap<usize, Vec<usize>>,
}
impl Layout {
    fn remove_hole(&mut self, start: usize) -> (r: Option<usize>)
        ensures
            r == (if old(self).start_to_hole@.contains_key(start) { Some(old(self).start_to_hole@[start]) } else { None }),
            final(self).start_to_hole@ == old(self).start_to_hole@.remove(start),
    {
        let size = self.start_to_hole.remove(&start)?;

        if let Some(starts) = self.hole_to_starts.get_mut(&size) {
            starts.retain(|s| *s != start);
            if starts.is_empty() {
                self.hole_to_starts.remove(&size);
            }
        }

        Some(size)
    }
}
fn main() {}
}
