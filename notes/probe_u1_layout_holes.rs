#![feature(allocator_api)]
use vstd::prelude::*;
use std::collections::BTreeMap;
verus! {

// ---------- prelude (assumed std contracts) ----------
pub assume_specification<T, A: std::alloc::Allocator, F: FnMut(&T) -> bool> [std::vec::Vec::<T, A>::retain] (v: &mut Vec<T, A>, f: F)
    ensures
        final(v)@.len() <= old(v)@.len(),
        forall|i: int| 0 <= i < final(v)@.len() ==> old(v)@.contains(#[trigger] final(v)@[i]) && f.ensures((&final(v)@[i],), true),
        forall|x: T| #[trigger] old(v)@.contains(x) && !final(v)@.contains(x) ==> f.ensures((&x,), false),
        old(v)@.no_duplicates() ==> final(v)@.no_duplicates(),
;

// idiom shim N7: m.entry(k).or_default().push(v)
#[verifier::external_body]
pub fn btree_entry_or_default_push(m: &mut BTreeMap<usize, Vec<usize>>, k: usize, v: usize)
    ensures
        final(m)@.dom() == old(m)@.dom().insert(k),
        forall|j: usize| j != k && old(m)@.contains_key(j) ==> final(m)@[j] == old(m)@[j],
        final(m)@[k]@ == (if old(m)@.contains_key(k) { old(m)@[k]@ } else { Seq::<usize>::empty() }).push(v),
{
    m.entry(k).or_default().push(v);
}

// idiom shim N7: m.range(..k).next_back()
#[verifier::external_body]
pub fn btree_pred(m: &BTreeMap<usize, usize>, k: usize) -> (r: Option<(usize, usize)>)
    ensures
        match r {
            Some((a, s)) => a < k && m@.contains_key(a) && m@[a] == s && forall|b: usize| m@.contains_key(b) && b < k ==> b <= a,
            None => forall|b: usize| m@.contains_key(b) ==> b >= k,
        }
{
    m.range(..k).next_back().map(|(a, s)| (*a, *s))
}

// idiom shim N7: m.range(min..).next() then starts.first().copied()
#[verifier::external_body]
pub fn btree_succ_ge_first(m: &BTreeMap<usize, Vec<usize>>, min: usize) -> (r: Option<(usize, Option<usize>)>)
    ensures
        match r {
            Some((sz, first)) => sz >= min && m@.contains_key(sz)
                && (forall|t: usize| m@.contains_key(t) && t >= min ==> t >= sz)
                && first == (if m@[sz]@.len() > 0 { Some(m@[sz]@[0]) } else { None }),
            None => forall|t: usize| m@.contains_key(t) ==> t < min,
        }
{
    m.range(min..).next().map(|(sz, starts)| (*sz, starts.first().copied()))
}

// idiom shim N7: for (k, v) in mem::take(&mut m)  ==>  take_map + pop_first loop
#[verifier::external_body]
pub fn take_map(m: &mut BTreeMap<usize, usize>) -> (r: BTreeMap<usize, usize>)
    ensures r@ == old(m)@, final(m)@ == Map::<usize, usize>::empty()
{ std::mem::take(m) }

#[verifier::external_body]
pub fn pop_first(m: &mut BTreeMap<usize, usize>) -> (r: Option<(usize, usize)>)
    ensures
        match r {
            Some((k, v)) => old(m)@.contains_key(k) && old(m)@[k] == v && final(m)@ == old(m)@.remove(k)
                && forall|j: usize| old(m)@.contains_key(j) ==> k <= j,
            None => old(m)@ == Map::<usize, usize>::empty() && final(m)@ == old(m)@,
        }
{ m.pop_first() }

// ---------- spec.rs ----------
pub open spec fn index_ok(h: Map<usize, usize>, idx: Map<usize, Vec<usize>>) -> bool {
    &&& forall|s: usize| #[trigger] h.contains_key(s) ==> idx.contains_key(h[s]) && idx[h[s]]@.contains(s)
    &&& forall|sz: usize, i: int| idx.contains_key(sz) && 0 <= i < idx[sz]@.len() ==> h.contains_key(#[trigger] idx[sz]@[i]) && h[idx[sz]@[i]] == sz
    &&& forall|sz: usize| #[trigger] idx.contains_key(sz) ==> idx[sz]@.len() > 0 && idx[sz]@.no_duplicates()
}

// holes are non-empty, do not overflow, are pairwise disjoint AND non-adjacent (merged)
pub open spec fn separated(h: Map<usize, usize>) -> bool {
    &&& forall|a: usize| #[trigger] h.contains_key(a) ==> h[a] > 0 && a + h[a] <= usize::MAX
    &&& forall|a: usize, b: usize| h.contains_key(a) && h.contains_key(b) && a < b ==> a + h[a] < b
}

pub open spec fn disjoint_maps(p: Map<usize, usize>, h: Map<usize, usize>) -> bool {
    forall|a: usize, b: usize| p.contains_key(a) && h.contains_key(b) ==> (a + p[a] <= b || b + h[b] <= a)
}
pub open spec fn pairwise_disjoint(p: Map<usize, usize>) -> bool {
    &&& forall|a: usize| #[trigger] p.contains_key(a) ==> p[a] > 0 && a + p[a] <= usize::MAX
    &&& forall|a: usize, b: usize| p.contains_key(a) && p.contains_key(b) && a < b ==> a + p[a] <= b
}
pub open spec fn covers(m: Map<usize, usize>, x: int) -> bool {
    exists|a: usize| m.contains_key(a) && a <= x < a + m[a]
}

// ---------- extracted from crates/rawdb/src/layout.rs (N5, N6 SmallVec->Vec, N7 idioms, N1, N2) ----------
pub struct Layout {
    pub start_to_hole: BTreeMap<usize, usize>,
    pub hole_to_starts: BTreeMap<usize, Vec<usize>>,
    pub pending_holes: BTreeMap<usize, usize>,
}

impl Layout {
    pub open spec fn holes(&self) -> Map<usize, usize> { self.start_to_hole@ }
    pub open spec fn idx_ok(&self) -> bool { index_ok(self.start_to_hole@, self.hole_to_starts@) }

    pub fn insert_hole(&mut self, start: usize, size: usize)
        requires old(self).idx_ok(), !old(self).holes().contains_key(start),
        ensures final(self).idx_ok(), final(self).holes() == old(self).holes().insert(start, size),
                final(self).pending_holes@ == old(self).pending_holes@,
    {
        self.start_to_hole.insert(start, size);
        btree_entry_or_default_push(&mut self.hole_to_starts, size, start);
        proof {
            let h0 = old(self).start_to_hole@; let i0 = old(self).hole_to_starts@;
            let h1 = self.start_to_hole@; let i1 = self.hole_to_starts@;
            assert forall|s: usize| #[trigger] h1.contains_key(s) implies i1.contains_key(h1[s]) && i1[h1[s]]@.contains(s) by {
                if s == start { assert(i1[size]@[i1[size]@.len() - 1] == start); }
                else {
                    assert(h0.contains_key(s));
                    if h0[s] == size {
                        let j = choose|j: int| 0 <= j < i0[size]@.len() && i0[size]@[j] == s;
                        assert(i1[size]@[j] == s);
                    }
                }
            }
            assert forall|sz: usize, i: int| i1.contains_key(sz) && 0 <= i < i1[sz]@.len() implies h1.contains_key(#[trigger] i1[sz]@[i]) && h1[i1[sz]@[i]] == sz by {
                if sz == size {
                    if i < i1[sz]@.len() - 1 { assert(i0.contains_key(sz)); assert(i1[sz]@[i] == i0[sz]@[i]); assert(h0.contains_key(i0[sz]@[i])); }
                } else { assert(i1[sz] == i0[sz]); assert(h0.contains_key(i0[sz]@[i])); }
            }
            assert forall|sz: usize| #[trigger] i1.contains_key(sz) implies i1[sz]@.len() > 0 && i1[sz]@.no_duplicates() by {
                if sz == size {
                    if i0.contains_key(size) {
                        assert forall|i: int, j: int| 0 <= i < i1[sz]@.len() && 0 <= j < i1[sz]@.len() && i != j implies i1[sz]@[i] != i1[sz]@[j] by {
                            if i == i1[sz]@.len() - 1 { assert(h0.contains_key(i0[sz]@[j])); }
                            else if j == i1[sz]@.len() - 1 { assert(h0.contains_key(i0[sz]@[i])); }
                        }
                    }
                } else { assert(i1[sz] == i0[sz]); }
            }
        }
    }


    pub fn remove_hole(&mut self, start: usize) -> (r: Option<usize>)
        requires old(self).idx_ok(),
        ensures final(self).idx_ok(),
                r == (if old(self).holes().contains_key(start) { Some(old(self).holes()[start]) } else { None::<usize> }),
                final(self).holes() == old(self).holes().remove(start),
                final(self).pending_holes@ == old(self).pending_holes@,
    {
        let size = self.start_to_hole.remove(&start)?;

        if let Some(starts) = self.hole_to_starts.get_mut(&size) {
            let ghost before = starts@;
            starts.retain(|s: &usize| -> (keep: bool) ensures keep == (*s != start) { *s != start });
            proof {
                assert forall|x: usize| before.contains(x) && x != start implies starts@.contains(x) by {
                    let j = choose|j: int| 0 <= j < before.len() && before[j] == x;
                    assert(before[j] == x);
                }
                assert forall|i: int| 0 <= i < starts@.len() implies before.contains(#[trigger] starts@[i]) && starts@[i] != start by {}
            }
            if starts.is_empty() {
                self.hole_to_starts.remove(&size);
            }
        }
        proof {
            let h0 = old(self).start_to_hole@; let i0 = old(self).hole_to_starts@;
            let h1 = self.start_to_hole@; let i1 = self.hole_to_starts@;
            assert(i0.contains_key(size));
            assert forall|s: usize| #[trigger] h1.contains_key(s) implies i1.contains_key(h1[s]) && i1[h1[s]]@.contains(s) by {
                assert(h0.contains_key(s) && s != start);
                assert(i0.contains_key(h0[s]) && i0[h0[s]]@.contains(s));
                if h0[s] == size {
                    let j = choose|j: int| 0 <= j < i0[size]@.len() && i0[size]@[j] == s;
                    assert(i0[size]@[j] == s);
                    assert(i1.contains_key(size));
                    assert(i1[size]@.contains(s));
                } else {
                    assert(i1.contains_key(h0[s]));
                    assert(i1[h0[s]] == i0[h0[s]]);
                }
            }
            assert forall|sz: usize, i: int| i1.contains_key(sz) && 0 <= i < i1[sz]@.len() implies h1.contains_key(#[trigger] i1[sz]@[i]) && h1[i1[sz]@[i]] == sz by {
                if sz == size {
                    assert(i0[size]@.contains(i1[sz]@[i]));
                    let j = choose|j: int| 0 <= j < i0[size]@.len() && i0[size]@[j] == i1[sz]@[i];
                    assert(h0.contains_key(i0[size]@[j]));
                } else { assert(h0.contains_key(i0[sz]@[i])); }
            }
        }
        Some(size)
    }

    pub fn find_smallest_adequate_hole(&self, min_size: usize) -> (r: Option<usize>)
        requires self.idx_ok(),
        ensures
            match r {
                Some(s) => self.holes().contains_key(s) && self.holes()[s] >= min_size
                    && forall|t: usize| self.holes().contains_key(t) && self.holes()[t] >= min_size ==> self.holes()[t] >= self.holes()[s],
                None => forall|t: usize| self.holes().contains_key(t) ==> self.holes()[t] < min_size,
            }
    {
        match btree_succ_ge_first(&self.hole_to_starts, min_size) {
            Some((sz, first)) => {
                proof {
                    assert(self.hole_to_starts@[sz]@.len() > 0);
                    assert(self.holes().contains_key(self.hole_to_starts@[sz]@[0]));
                }
                first
            },
            None => None,
        }
    }

    pub fn remove_or_compress_hole(&mut self, start: usize, compress_by: usize) -> (r: Result<(), ()>)
        requires old(self).idx_ok(), separated(old(self).holes()),
                 old(self).holes().contains_key(start), old(self).holes()[start] >= compress_by, compress_by > 0,
        ensures final(self).idx_ok(), separated(final(self).holes()), r is Ok,
                final(self).pending_holes@ == old(self).pending_holes@,
                final(self).holes() == (if old(self).holes()[start] == compress_by { old(self).holes().remove(start) }
                    else { old(self).holes().remove(start).insert((start + compress_by) as usize, (old(self).holes()[start] - compress_by) as usize) }),
    {
        let Some(size) = self.remove_hole(start) else {
            return Ok(());
        };

        if size == compress_by {
            Ok(())
        } else if size > compress_by {
            let new_start = start + compress_by;
            let new_size = size - compress_by;
            proof {
                // new_start is not an existing hole: it lies strictly inside the old hole
                assert forall|b: usize| old(self).holes().contains_key(b) && b != start implies b != new_start by {
                    if b > start { assert(start + old(self).holes()[start] < b); }
                }
            }
            self.insert_hole(new_start, new_size);
            Ok(())
        } else {
            Err(())
        }
    }


    pub fn promote_pending_holes(&mut self)
        requires old(self).idx_ok(), separated(old(self).holes()),
                 pairwise_disjoint(old(self).pending_holes@),
                 disjoint_maps(old(self).pending_holes@, old(self).holes()),
        ensures final(self).idx_ok(), separated(final(self).holes()),
                final(self).pending_holes@ == Map::<usize, usize>::empty(),
                forall|x: int| covers(final(self).holes(), x) <==> (covers(old(self).holes(), x) || covers(old(self).pending_holes@, x)),
    {
        let mut it = take_map(&mut self.pending_holes);
        let ghost p0 = it@;
        let ghost h0 = self.holes();
        loop
            invariant
                self.idx_ok(), separated(self.holes()),
                self.pending_holes@ == Map::<usize, usize>::empty(),
                pairwise_disjoint(it@), disjoint_maps(it@, self.holes()),
                forall|x: int| (covers(self.holes(), x) || covers(it@, x)) <==> (covers(h0, x) || covers(p0, x)),
            ensures it@ == Map::<usize, usize>::empty(),
            decreases it@.dom().len(),
        {
            match pop_first(&mut it) {
                Some((start, size0)) => {
                    let mut size = size0;
                    let ghost it_before = it@.insert(start, size0);
                    let ghost h_before = self.holes();
                    let mut final_start = start;

                    // Coalesce with adjacent real hole BEFORE
                    if let Some((hole_start, hole_size)) = btree_pred(&self.start_to_hole, start) {
                        if hole_start + hole_size == start {
                            self.remove_hole(hole_start);
                            final_start = hole_start;
                            size += hole_size;
                        }
                    }

                    // Coalesce with adjacent real hole AFTER
                    if let Some(hole_after_size) = self.remove_hole(final_start + size) {
                        size += hole_after_size;
                    }

                    self.insert_hole(final_start, size);
                    proof {
                        let h1 = self.holes();
                        // coverage of this step: h1 covers exactly h_before plus [start, start+size0)
                        assert forall|x: int| (covers(h1, x) || covers(it@, x)) <==> (covers(h_before, x) || covers(it_before, x)) by {
                            if covers(h1, x) {
                                let a = choose|a: usize| h1.contains_key(a) && a <= x < a + h1[a];
                                if a == final_start {
                                    if x < start { assert(h_before.contains_key(final_start) && final_start <= x < final_start + h_before[final_start]); }
                                    else if x < start + size0 { assert(it_before.contains_key(start) && start <= x < start + it_before[start]); }
                                    else { let e = (start + size0) as usize; assert(h_before.contains_key(e) && e <= x < e + h_before[e]); }
                                } else { assert(h_before.contains_key(a) && a <= x < a + h_before[a]); }
                            }
                            if covers(it@, x) {
                                let a = choose|a: usize| it@.contains_key(a) && a <= x < a + it@[a];
                                assert(it_before.contains_key(a) && a <= x < a + it_before[a]);
                            }
                            if covers(h_before, x) {
                                let a = choose|a: usize| h_before.contains_key(a) && a <= x < a + h_before[a];
                                if h1.contains_key(a) && h1[a] == h_before[a] { assert(a <= x < a + h1[a]); }
                                else { assert(h1.contains_key(final_start) && final_start <= x < final_start + h1[final_start]); }
                            }
                            if covers(it_before, x) {
                                let a = choose|a: usize| it_before.contains_key(a) && a <= x < a + it_before[a];
                                if a == start { assert(h1.contains_key(final_start) && final_start <= x < final_start + h1[final_start]); }
                                else { assert(it@.contains_key(a) && a <= x < a + it@[a]); }
                            }
                        }
                    }
                },
                None => { break; }
            }
        }
        proof {
            assert forall|x: int| !covers(it@, x) by {}
        }
    }

    pub fn get_hole(&self, start: usize) -> (r: Option<usize>)
        ensures r == (if self.holes().contains_key(start) { Some(self.holes()[start]) } else { None::<usize> })
    {
        match self.start_to_hole.get(&start) { Some(x) => Some(*x), None => None }
    }
}

fn main() {}
}
