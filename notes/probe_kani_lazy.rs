use crate::*;

fn format_stub(_args: std::fmt::Arguments<'_>) -> String { String::new() }


#[derive(Clone)]
pub struct MemVec { data: Vec<u8> }

impl AnyVec for MemVec {
    fn version(&self) -> Version { Version::ZERO }
    fn name(&self) -> &str { "m" }
    fn len(&self) -> usize { self.data.len() }
    fn index_type_to_string(&self) -> &'static str { "usize" }
    fn region_names(&self) -> Vec<String> { vec![] }
    fn value_type_to_size_of(&self) -> usize { 1 }
    fn value_type_to_string(&self) -> &'static str { "u8" }
}
impl TypedVec for MemVec { type I = usize; type T = u8; }
impl ReadableVec<usize, u8> for MemVec {
    fn read_into_at(&self, from: usize, to: usize, buf: &mut Vec<u8>) {
        let len = self.data.len();
        let from = from.min(len); let to = to.min(len);
        if from < to { buf.extend_from_slice(&self.data[from..to]); }
    }
    fn for_each_range_dyn_at(&self, from: usize, to: usize, f: &mut dyn FnMut(u8)) {
        let len = self.data.len();
        let from = from.min(len); let to = to.min(len);
        let mut i = from; while i < to { f(self.data[i]); i += 1; }
    }
    fn fold_range_at<B, F: FnMut(B, u8) -> B>(&self, from: usize, to: usize, init: B, mut f: F) -> B {
        let len = self.data.len();
        let from = from.min(len); let to = to.min(len);
        let mut acc = init; let mut i = from; while i < to { acc = f(acc, self.data[i]); i += 1; } acc
    }
    fn try_fold_range_at<B, E, F: FnMut(B, u8) -> std::result::Result<B, E>>(&self, from: usize, to: usize, init: B, mut f: F) -> std::result::Result<B, E> {
        let len = self.data.len();
        let from = from.min(len); let to = to.min(len);
        let mut acc = init; let mut i = from; while i < to { acc = f(acc, self.data[i])?; i += 1; } Ok(acc)
    }
}

fn any_src(n: usize) -> MemVec {
    let mut data = Vec::with_capacity(n);
    let mut i = 0; while i < n { data.push(kani::any()); i += 1; }
    MemVec { data }
}

#[kani::proof]
#[kani::unwind(6)]
#[kani::stub(alloc::fmt::format, format_stub)]
fn lazy_from1_collect_one_matches_formula() {
    let n: usize = kani::any(); kani::assume(n <= 3);
    let src = any_src(n);
    let expect = src.data.clone();
    let lazy: LazyVecFrom1<usize, u8, usize, u8> = LazyVecFrom1::init("l", Version::ZERO, Box::new(src), |_i, v| v.wrapping_add(1));
    let idx: usize = kani::any(); kani::assume(idx <= 4);
    let got = lazy.collect_one_at(idx);
    if idx < n { assert!(got == Some(expect[idx].wrapping_add(1))); } else { assert!(got.is_none()); }
}

#[kani::proof]
#[kani::unwind(6)]
#[kani::stub(alloc::fmt::format, format_stub)]
fn lazy_from1_range_matches_formula() {
    let n: usize = kani::any(); kani::assume(n <= 3);
    let src = any_src(n);
    let expect = src.data.clone();
    let lazy: LazyVecFrom1<usize, u8, usize, u8> = LazyVecFrom1::init("l", Version::ZERO, Box::new(src), |_i, v| v.wrapping_add(1));
    let from: usize = kani::any(); let to: usize = kani::any();
    kani::assume(from <= 4 && to <= 4);
    let got = lazy.collect_range_dyn(from, to);
    let f = from.min(n); let t = to.min(n);
    if f < t {
        assert!(got.len() == t - f);
        let k: usize = kani::any(); kani::assume(k < t - f);
        assert!(got[k] == expect[f + k].wrapping_add(1));
    } else { assert!(got.is_empty()); }
}

#[derive(Clone, Copy)]
pub struct WrapSub;
impl DeltaOp<u8, u8> for WrapSub {
    fn ago_index(start: usize) -> Option<usize> { start.checked_sub(1) }
    fn ago_default() -> u8 { 0 }
    fn count(h: usize, start: usize) -> usize { h - start + 1 }
    fn combine(current: u8, ago: u8, _count: usize) -> u8 { current.wrapping_sub(ago) }
}

fn formula(src: &[u8], starts: &[usize], h: usize) -> u8 {
    let s = starts[h];
    let ago = if s == 0 { 0 } else { src[s - 1] };
    src[h].wrapping_sub(ago)
}

#[kani::proof]
#[kani::unwind(8)]
#[kani::stub(alloc::fmt::format, format_stub)]
fn lazy_delta_sorted_read_matches_formula() {
    const N: usize = 3;
    let src = any_src(N);
    let data = src.data.clone();
    // monotone window starts with starts[h] <= h + 1 (empty window allowed)
    let s0: usize = kani::any(); let s1: usize = kani::any(); let s2: usize = kani::any();
    kani::assume(s0 <= 1 && s0 <= s1 && s1 <= 2 && s1 <= s2 && s2 <= 3);
    let starts: std::sync::Arc<[usize]> = std::sync::Arc::from(vec![s0, s1, s2]);
    let st2 = starts.clone();
    let lazy: LazyDeltaVec<usize, u8, u8, WrapSub> =
        LazyDeltaVec::new("d", Version::ZERO, Box::new(src), Version::ZERO, move || st2.clone());
    // two sorted indices, possibly equal, possibly out of range
    let i0: usize = kani::any(); let i1: usize = kani::any();
    kani::assume(i0 <= i1 && i1 <= 3);
    let got = lazy.read_sorted_at(&[i0, i1]);
    let mut exp: Vec<u8> = Vec::new();
    if i0 < N { exp.push(formula(&data, &starts, i0)); }
    if i1 < N { exp.push(formula(&data, &starts, i1)); }
    assert!(got.len() == exp.len());
    if got.len() > 0 { assert!(got[0] == exp[0]); }
    if got.len() > 1 { assert!(got[1] == exp[1]); }
}
