use vstd::prelude::*;
verus! {

pub enum Ev { DataAsync, MetaAsync, FileSync, RegionsSync, MarkClean, Promote }

#[verifier::external_body]
pub struct FileH { _p: () }
#[verifier::external_body]
pub struct RegionsH { _p: () }
pub struct Err_ {}

impl FileH {
    #[verifier::external_body]
    pub fn sync_data(&self) -> Result<(), Err_> { unimplemented!() }
}
impl RegionsH {
    #[verifier::external_body]
    pub fn flush(&self) -> Result<(), Err_> { unimplemented!() }
    #[verifier::external_body]
    pub fn sync_data(&self) -> Result<(), Err_> { unimplemented!() }
}
#[verifier::external_body]
pub fn promote() {}

pub open spec fn order_ok(t: Seq<Ev>) -> bool {
    forall|i: int, j: int| 0 <= i < t.len() && 0 <= j < t.len() && t[i] == Ev::RegionsSync && t[j] == Ev::FileSync ==> j < i
}
pub open spec fn promote_after_syncs(t: Seq<Ev>) -> bool {
    forall|i: int| 0 <= i < t.len() && t[i] == Ev::Promote ==>
        (exists|j: int| 0 <= j < i && t[j] == Ev::FileSync) && (exists|k: int| 0 <= k < i && t[k] == Ev::RegionsSync)
}

fn flush(f: &FileH, r: &RegionsH) -> Result<usize, Err_> {
    let ghost mut tr: Seq<Ev> = Seq::empty();
    r.flush()?;
    proof { tr = tr.push(Ev::MetaAsync); }
    f.sync_data()?;
    proof { tr = tr.push(Ev::FileSync); }
    r.sync_data()?;
    proof { tr = tr.push(Ev::RegionsSync); }
    promote();
    proof { tr = tr.push(Ev::Promote); }
    assert(order_ok(tr));
    assert(promote_after_syncs(tr)) by {
        assert(tr[1] == Ev::FileSync); assert(tr[2] == Ev::RegionsSync);
    }
    Ok(1)
}
fn main() {}
}
