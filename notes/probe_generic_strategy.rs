use vstd::prelude::*;
verus! {

pub trait Strategy<T>: Sized {
    spec fn enc(v: T) -> Seq<u8>;
    spec fn size() -> nat;
    fn write_to_vec(value: &T, buf: &mut Vec<u8>)
        ensures final(buf)@ == old(buf)@ + Self::enc(*value), Self::enc(*value).len() == Self::size();
}

pub struct Base<T> { pub pushed: Vec<T>, pub stored_len: usize }

impl<T: Copy> Base<T> {
    pub open spec fn len_spec(&self) -> nat { (self.stored_len + self.pushed@.len()) as nat }

    pub fn fold_pushed<B, F: FnMut(B, T) -> B>(
        &self,
        from: usize,
        to: usize,
        init: B,
        mut f: F,
    ) -> B
        requires self.stored_len + self.pushed@.len() <= usize::MAX,
                 forall|b: B, t: T| f.requires((b, t)),
    {
        let stored_len = self.stored_len;
        let start = if from > stored_len { from } else { stored_len };
        if start >= to {
            return init;
        }
        let pushed = &self.pushed;
        let slice_from = start - stored_len;
        let slice_to = if (to - stored_len) < pushed.len() { to - stored_len } else { pushed.len() };
        let mut acc = init;
        let mut i = slice_from;
        while i < slice_to
            invariant slice_to <= pushed@.len(), forall|b: B, t: T| f.requires((b, t)),
            decreases slice_to - i
        {
            acc = f(acc, pushed[i]);
            i += 1;
        }
        acc
    }
}

fn ser<T: Copy, S: Strategy<T>>(vals: &Vec<T>) -> (r: Vec<u8>)
    ensures r@.len() == vals@.len() * S::size()
{
    let mut bytes = Vec::new();
    let mut i = 0;
    while i < vals.len()
        invariant i <= vals@.len(), bytes@.len() == i * S::size()
        decreases vals@.len() - i
    {
        S::write_to_vec(&vals[i], &mut bytes);
        proof { vstd::arithmetic::mul::lemma_mul_is_distributive_add_other_way(S::size() as int, i as int, 1); }
        i += 1;
    }
    bytes
}
fn main() {}
}
