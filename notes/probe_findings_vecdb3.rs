use rawdb::Database;
use tempfile::TempDir;
use vecdb::*;

#[test]
fn cursor_and_sorted_reads_with_holes() {
    let temp = TempDir::new().unwrap();
    let db = Database::open(temp.path()).unwrap();
    let mut v: BytesVec<usize, u32> = BytesVec::forced_import(&db, "h", Version::TWO).unwrap();
    for i in 10..15 { v.push(i); }
    v.write().unwrap();
    v.delete_at(0);
    println!("len={} holed={:?}", v.len(), v.collect_holed().unwrap());
    println!("collect (non-deleted in order) = {:?}", v.collect());
    println!("collect_one_at(0)={:?} collect_one_at(1)={:?}", v.collect_one_at(0), v.collect_one_at(1));
    println!("read_sorted_at([1,3]) = {:?} (expected [11,13])", v.read_sorted_at(&[1, 3]));
    let r = std::panic::catch_unwind(std::panic::AssertUnwindSafe(|| {
        let mut c = v.cursor();
        c.get(4)
    }));
    println!("cursor.get(4) = {:?} (expected Ok(Some(14)))", r.map_err(|_| "PANIC"));
    let rd = v.reader();
    println!("VecReader.get(0) on deleted slot = {} (property: nothing)", rd.get(0));
}
