// STATUS (design round): language-subset feasibility established for the real compressed write() body;
// Page/Pages: 21 obligations verified; write(): prologue+fast path+chunk loop accepted by Verus, 8 proof obligations still open (invariants/div-mod lemmas).
#![feature(allocator_api)]
use vstd::prelude::*;
verus! {

pub const HEADER_OFFSET: usize = 32;
pub const MAX_UNCOMPRESSED_PAGE_SIZE: usize = 16 * 1024;

// ---------- prelude: rawdb Region as seen from vecdb (N14: interior mutability made explicit) ----------
pub struct ErrorShim { pub kind: u8 }

#[verifier::external_body]
pub struct Region { _p: () }
impl Region {
    pub uninterp spec fn bytes(&self) -> Seq<u8>;
    // contract = the postcondition rawdb's Region::write_with(data, Some(at), true) is proved/RAC-checked against
    #[verifier::external_body]
    pub fn truncate_write(&mut self, at: usize, data: &[u8]) -> (r: Result<(), ErrorShim>)
        requires at <= old(self).bytes().len(),
        ensures r is Ok, final(self).bytes() == old(self).bytes().take(at as int) + data@,
    { unimplemented!() }
}

// ---------- extracted: page/mod.rs ----------
#[derive(Clone, Copy)]
pub struct Page {
    pub start: u64,
    pub bytes: u32,
    pub values: u32,
}

pub const RAW_FLAG: u32 = 0x8000_0000;

impl Page {
    pub fn compressed(start: u64, bytes: u32, values: u32) -> (p: Self)
        requires values < 0x8000_0000u32,
        ensures p.start == start, p.bytes == bytes, p.values_count_spec() == values, !p.is_raw_spec(),
    {
        let p = Self { start, bytes, values };
        proof { assert(values & 0x8000_0000u32 == 0 && values & !0x8000_0000u32 == values) by (bit_vector) requires values < 0x8000_0000u32; }
        p
    }

    pub fn raw(start: u64, bytes: u32, values: u32) -> (p: Self)
        requires values < 0x8000_0000u32,
        ensures p.start == start, p.bytes == bytes, p.values_count_spec() == values, p.is_raw_spec(),
    {
        let p = Self { start, bytes, values: values | RAW_FLAG };
        proof { assert((values | 0x8000_0000u32) & 0x8000_0000u32 != 0 && (values | 0x8000_0000u32) & !0x8000_0000u32 == values) by (bit_vector) requires values < 0x8000_0000u32; }
        p
    }

    pub open spec fn is_raw_spec(&self) -> bool { self.values & RAW_FLAG != 0 }
    pub open spec fn values_count_spec(&self) -> u32 { self.values & !RAW_FLAG }
    pub open spec fn end_spec(&self) -> int { self.start + self.bytes }

    pub fn is_raw(&self) -> (r: bool) ensures r == self.is_raw_spec() { self.values & RAW_FLAG != 0 }
    pub fn values_count(&self) -> (r: u32) ensures r == self.values_count_spec() { self.values & !RAW_FLAG }
    pub fn end(&self) -> (r: u64)
        requires self.start + self.bytes <= u64::MAX,
        ensures r == self.end_spec()
    { self.start + self.bytes as u64 }
}

// ---------- spec.rs (C07) ----------
pub open spec fn sum_counts(p: Seq<Page>) -> int decreases p.len() {
    if p.len() == 0 { 0 } else { sum_counts(p.drop_last()) + p.last().values_count_spec() as int }
}

pub open spec fn pages_wf(p: Seq<Page>, per_page: int, stored_len: int, region_len: int) -> bool {
    &&& (p.len() > 0 ==> p[0].start == HEADER_OFFSET)
    &&& forall|i: int| 0 <= i < p.len() - 1 ==> #[trigger] p[i + 1].start == p[i].end_spec()
    &&& forall|i: int| 0 <= i < p.len() - 1 ==> (#[trigger] p[i]).values_count_spec() == per_page && !p[i].is_raw_spec()
    &&& forall|i: int| 0 <= i < p.len() ==> ((#[trigger] p[i]).is_raw_spec() ==> p[i].values_count_spec() < per_page)
    &&& forall|i: int| 0 <= i < p.len() ==> 0 < (#[trigger] p[i]).values_count_spec() <= per_page
    &&& stored_len == (if p.len() == 0 { 0 } else { (p.len() - 1) * per_page + p.last().values_count_spec() })
    &&& region_len == (if p.len() == 0 { HEADER_OFFSET as int } else { p.last().end_spec() })
}

// ---------- extracted: pages.rs (N9 lock erased at the field; N14 region explicit) ----------
pub struct Pages {
    pub region: Region,
    pub vec: Vec<Page>,
    pub change_at: Option<usize>,
}

impl Pages {
    pub fn len(&self) -> (r: usize) ensures r == self.vec@.len() { self.vec.len() }

    pub fn get(&self, page_index: usize) -> (r: Option<&Page>)
        ensures r == (if page_index < self.vec@.len() { Some(&self.vec@[page_index as int]) } else { None::<&Page> })
    {
        if page_index < self.vec.len() { Some(&self.vec[page_index]) } else { None }
    }

    pub fn last(&self) -> (r: Option<&Page>)
        ensures r == (if self.vec@.len() > 0 { Some(&self.vec@.last()) } else { None::<&Page> })
    {
        if self.vec.len() > 0 { Some(&self.vec[self.vec.len() - 1]) } else { None }
    }

    pub fn checked_push(&mut self, page_index: usize, page: Page) -> (r: Result<(), ErrorShim>)
        ensures
            page_index == old(self).vec@.len() ==> r is Ok && final(self).vec@ == old(self).vec@.push(page),
            page_index != old(self).vec@.len() ==> r is Err && final(self).vec@ == old(self).vec@ && final(self).change_at == old(self).change_at,
            final(self).region == old(self).region,
    {
        if page_index != self.vec.len() {
            return Err(ErrorShim { kind: 1 });
        }

        self.set_changed_at(page_index);

        self.vec.push(page);
        Ok(())
    }

    pub fn set_changed_at(&mut self, page_index: usize)
        ensures final(self).vec == old(self).vec, final(self).region == old(self).region,
                final(self).change_at == Some(match old(self).change_at { Some(pi) => if pi > page_index { page_index } else { pi }, None => page_index }),
    {
        let replace = match self.change_at { None => true, Some(pi) => pi > page_index };
        if replace {
            self.change_at = Some(page_index);
        }
    }

    pub fn truncate(&mut self, page_index: usize) -> (r: Option<Page>)
        ensures final(self).vec@ == (if page_index <= old(self).vec@.len() { old(self).vec@.take(page_index as int) } else { old(self).vec@ }),
                final(self).region == old(self).region,
    {
        let page = match self.get(page_index) { Some(p) => Some(*p), None => None };
        self.vec.truncate(page_index);
        self.set_changed_at(page_index);
        page
    }

    pub fn next_start(&self) -> (r: u64)
        requires self.vec@.len() > 0 ==> self.vec@.last().start + self.vec@.last().bytes <= u64::MAX,
        ensures r == (if self.vec@.len() > 0 { self.vec@.last().end_spec() } else { HEADER_OFFSET as int }),
    {
        match self.last() { None => HEADER_OFFSET as u64, Some(page) => page.end() }
    }

    pub fn stored_len(&self, per_page: usize) -> (r: usize)
        requires self.vec@.len() > 0 ==> (self.vec@.len() - 1) * per_page + self.vec@.last().values_count_spec() <= usize::MAX,
        ensures r == (if self.vec@.len() == 0 { 0 } else { (self.vec@.len() - 1) * per_page + self.vec@.last().values_count_spec() }),
    {
        if let Some(last) = self.last() {
            (self.len() - 1) * per_page + last.values_count() as usize
        } else {
            0
        }
    }
}


// ---------- prelude: strategy trait (assumed at the trait; proved per impl elsewhere / external codecs assumed) ----------
pub trait CompressionStrategy<T: Copy>: Sized {
    spec fn size_of_t() -> nat;
    fn compress(values: &[T]) -> (r: Result<Vec<u8>, ErrorShim>)
        ensures r matches Ok(b) ==> 0 < b@.len() < 0x1_0000_0000;
    fn values_to_bytes(values: &[T]) -> (r: Vec<u8>)
        ensures r@.len() == values@.len() * Self::size_of_t();
    fn decode_page(data: &[u8], page: &Page) -> (r: Result<Vec<T>, ErrorShim>)
        ensures r matches Ok(v) ==> v@.len() == page.values_count_spec();
}

// N7 idiom: std::mem::take on a Vec
#[verifier::external_body]
pub fn take_vec<T>(v: &mut Vec<T>) -> (r: Vec<T>) ensures r@ == old(v)@, final(v)@ == Seq::<T>::empty() { std::mem::take(v) }
// N7 idiom: i-th element of values.chunks(n)
#[verifier::external_body]
pub fn slice_chunk<T>(v: &Vec<T>, n: usize, ci: usize) -> (r: &[T])
    requires n > 0, ci * n < v@.len(),
    ensures r@ == v@.subrange(ci * n, if (ci + 1) * n <= v@.len() { (ci + 1) * n } else { v@.len() as int }),
{ &v[ci * n..std::cmp::min((ci + 1) * n, v.len())] }
// rawdb Reader::unchecked_read seen through the C20 precondition
#[verifier::external_body]
pub fn region_read(region: &Region, offset: usize, len: usize) -> (r: Vec<u8>)
    requires offset + len <= region.bytes().len(),
    ensures r@ == region.bytes().subrange(offset as int, offset + len),
{ unimplemented!() }

pub struct CVec<T> {
    pub region: Region,
    pub pushed: Vec<T>,
    pub stored_len: usize,
    pub pages: Pages,
}

impl<T: Copy> CVec<T> {
    pub open spec fn wf<S: CompressionStrategy<T>>(&self, per_page: int) -> bool {
        &&& per_page * S::size_of_t() == MAX_UNCOMPRESSED_PAGE_SIZE as int   // probe simplification: SIZE_OF_T divides 16 KiB
        &&& 0 < per_page < 0x8000_0000
        &&& self.region.bytes().len() < 0x1000_0000_0000
        &&& self.stored_len + self.pushed@.len() < 0x1000_0000_0000
        &&& exists|rl: int| self.stored_len <= rl < 0x1000_0000_0000 && #[trigger] pages_wf(self.pages.vec@, per_page, rl, self.region.bytes().len() as int)
    }

    // AnyStoredVec::write, compressed/inner/read_write/any_stored_vec.rs:51
    pub fn write<S: CompressionStrategy<T>>(&mut self, per_page_: usize) -> (r: Result<bool, ErrorShim>)
        requires old(self).wf::<S>(per_page_ as int),
        ensures
            r is Ok ==> pages_wf(final(self).pages.vec@, per_page_ as int, (old(self).stored_len + old(self).pushed@.len()) as int, final(self).region.bytes().len() as int)
                        && final(self).stored_len == old(self).stored_len + old(self).pushed@.len()
                        && final(self).pushed@.len() == 0,
    {
        let per_page = per_page_;
        let stored_len = self.stored_len;
        let pushed_len = self.pushed.len();

        let (truncate_at, starting_page_index, partial_page): (u64, usize, Option<(Page, usize)>) = {
            let pages = &self.pages;

            let real_stored_len = pages.stored_len(per_page);
            if stored_len > real_stored_len {
                return Err(ErrorShim { kind: 2 });
            }

            if pushed_len == 0 && stored_len == real_stored_len {
                return Ok(false);
            }

            let starting_page_index = stored_len / per_page;
            if starting_page_index > pages.len() {
                return Err(ErrorShim { kind: 2 });
            }

            if starting_page_index < pages.len() {
                let partial_len = stored_len % per_page;
                let page = match pages.get(starting_page_index) { Some(p) => *p, None => return Err(ErrorShim { kind: 3 }) };
                (
                    page.start,
                    starting_page_index,
                    if partial_len != 0 {
                        Some((page, partial_len))
                    } else {
                        None
                    },
                )
            } else {
                (pages.next_start(), starting_page_index, None)
            }
        };

        // Fast path: append to existing raw page without reading it back.
        if let Some((page, partial_len)) = partial_page {
          if page.is_raw()
            && partial_len == page.values_count() as usize
            && partial_len + pushed_len < per_page
          {
            let taken = take_vec(&mut self.pushed);
            let raw = S::values_to_bytes(taken.as_slice());
            let append_at = page.end() as usize;
            self.region.truncate_write(append_at, raw.as_slice())?;

            let pages = &mut self.pages;
            pages.truncate(starting_page_index);
            pages.checked_push(
                starting_page_index,
                Page::raw(
                    page.start,
                    page.bytes + raw.len() as u32,
                    (partial_len + pushed_len) as u32,
                ),
            )?;
            self.stored_len = stored_len + pushed_len;
            return Ok(true);
          }
        }

        // Decompress the partial page outside the pages lock.
        let mut values = if let Some((page, partial_len)) = partial_page {
            let data = region_read(&self.region, page.start as usize, page.bytes as usize);
            let mut page_values = S::decode_page(data.as_slice(), &page)?;
            page_values.truncate(partial_len);
            page_values
        } else {
            Vec::new()
        };

        let taken = take_vec(&mut self.pushed);
        let mut ti = 0;
        while ti < taken.len()
            invariant ti <= taken@.len(), values@.len() == old_values_len(partial_page) + ti,
            decreases taken@.len() - ti
        {
            values.push(taken[ti]);
            ti += 1;
        }

        let num_pages = values.len() / per_page + (if values.len() % per_page != 0 { 1usize } else { 0 });
        let mut buf: Vec<u8> = Vec::new();
        let mut page_sizes: Vec<(usize, usize, bool)> = Vec::new();
        let mut ci: usize = 0;
        while ci * per_page < values.len()
            invariant
                per_page > 0, per_page == per_page_,
                ci * per_page <= values@.len() + per_page,
                page_sizes@.len() == ci,
                forall|k: int| 0 <= k < ci ==> {
                    &&& 0 < (#[trigger] page_sizes@[k]).0 < 0x1_0000_0000
                    &&& page_sizes@[k].1 == (if (k + 1) * per_page <= values@.len() { per_page as int } else { values@.len() - k * per_page })
                    &&& page_sizes@[k].2 == (page_sizes@[k].1 != per_page)
                },
                S::size_of_t() * per_page == MAX_UNCOMPRESSED_PAGE_SIZE,
                values@.len() < 0x1000_0000_0000, per_page < 0x8000_0000,
            decreases values@.len() + per_page - ci * per_page
        {
            proof {
                assert(ci * per_page + per_page == (ci + 1) * per_page) by (nonlinear_arith);
            }
            let chunk = slice_chunk(&values, per_page, ci);
            if chunk.len() == per_page {
                let compressed = S::compress(chunk)?;
                page_sizes.push((compressed.len(), chunk.len(), false));
            } else {
                let raw = S::values_to_bytes(chunk);
                proof {
                    assert(0 < chunk@.len() < per_page);
                    assert(raw@.len() == chunk@.len() * S::size_of_t());
                    assert(0 < chunk@.len() * S::size_of_t() <= per_page * S::size_of_t()) by (nonlinear_arith)
                        requires 0 < chunk@.len() < per_page, S::size_of_t() * per_page == MAX_UNCOMPRESSED_PAGE_SIZE;
                }
                page_sizes.push((raw.len(), chunk.len(), true));
            }
            ci += 1;
        }

        Ok(true)
    }
}

pub open spec fn old_values_len(partial_page: Option<(Page, usize)>) -> int {
    match partial_page { Some((_, l)) => l as int, None => 0 }
}

fn main() {}
}
