use rawdb::Database;
use tempfile::TempDir;
use vecdb::*;

fn opts<'a>(db: &'a Database, name: &'a str) -> ImportOptions<'a> {
    let o: ImportOptions = (db, name, Version::TWO).into();
    o.with_saved_stamped_changes(10)
}

fn rollback_push_write<V: StoredVec<I = usize, T = u32>>(tag: &str) {
    let temp = TempDir::new().unwrap();
    let db = Database::open(temp.path()).unwrap();
    let mut v: V = V::forced_import_with(opts(&db, "r")).unwrap();
    for i in 1..=4 { v.push(i); }
    v.stamped_write_with_changes(Stamp::new(1)).unwrap();
    v.truncate_if_needed_at(2).unwrap();
    v.push(9);
    v.stamped_write_with_changes(Stamp::new(2)).unwrap();
    v.rollback().unwrap();
    println!("[{tag}] after rollback: {:?} stored_len={} real={}", v.collect(), v.stored_len(), v.real_stored_len());
    v.push(5);
    println!("[{tag}] after push: {:?}", v.collect());
    let r = v.stamped_write_with_changes(Stamp::new(3));
    println!("[{tag}] commit after rollback+push -> {:?}", r.as_ref().map_err(|e| e.to_string()));
    println!("[{tag}] now: {:?} (expected [1,2,3,4,5])", v.collect());
    let r2 = v.write();
    println!("[{tag}] second write -> {:?}; contents {:?}", r2.as_ref().map_err(|e| e.to_string()), v.collect());
}

fn reset_write_reopen<V: StoredVec<I = usize, T = u32>>(tag: &str) {
    let temp = TempDir::new().unwrap();
    {
        let db = Database::open(temp.path()).unwrap();
        let mut v: V = V::forced_import_with(opts(&db, "z")).unwrap();
        for i in 0..5 { v.push(i); }
        v.write().unwrap();
        v.reset().unwrap();
        println!("[{tag}] after reset: len={} {:?}", v.len(), v.collect());
        let w = v.write().unwrap();
        println!("[{tag}] write after reset returned {w}");
        v.flush().unwrap();
        db.flush().unwrap();
    }
    {
        let db = Database::open(temp.path()).unwrap();
        let v: V = V::forced_import_with(opts(&db, "z")).unwrap();
        println!("[{tag}] after reopen: len={} {:?} (expected empty)", v.len(), v.collect());
    }
}

#[test]
fn probes() {
    rollback_push_write::<BytesVec<usize, u32>>("bytes");
    rollback_push_write::<PcoVec<usize, u32>>("pco");
    reset_write_reopen::<BytesVec<usize, u32>>("bytes");
    reset_write_reopen::<PcoVec<usize, u32>>("pco");
}
