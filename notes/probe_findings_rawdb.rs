use rawdb::*;
#[test]
fn failed_remove_has_no_effect() {
    let dir = tempfile::TempDir::new().unwrap();
    let db = Database::open(dir.path()).unwrap();
    let a = db.create_region_if_needed("a").unwrap();
    a.write(&[1u8; 100]).unwrap();
    let keep = a.clone();
    let r = a.remove();
    println!("remove result: {:?}", r.as_ref().err().map(|e| e.to_string()));
    assert!(r.is_err());
    println!("regions has a: {}", db.get_region("a").is_some());
    println!("layout regions: {:?}", db.layout().start_to_region().keys().collect::<Vec<_>>());
    db.flush().unwrap();
    println!("layout holes after flush: {:?}", db.layout().start_to_hole());
    let b = db.create_region_if_needed("b").unwrap();
    b.write(&[2u8; 100]).unwrap();
    println!("a.start={} b.start={}", keep.meta().start(), b.meta().start());
    let ra = keep.create_reader();
    println!("a[0]={} (expected 1)", ra.read_all()[0]);
}
