#!/bin/bash
# usage: confirm_seed.sh <seed out dir> <crate> <features|-> : verifies in a scratch worktree that the demo passes without the patch,
# fails with it, and that the full suite still passes with it. Prints a JSON line.
set -u
OUT=$1; CRATE=$2; FEAT=${3:--}
W=/tmp/seed/confirm
if [ ! -d $W ]; then git -C /repo worktree add -q --detach $W HEAD; fi
cd $W && git checkout -q --detach $(git -C /repo rev-parse HEAD) && git checkout -q -- . && git clean -fdq crates
export CARGO_TARGET_DIR=/tmp/seed/confirm-target CARGO_NET_OFFLINE=true
cp $OUT/demo.rs crates/$CRATE/tests/seed_demo.rs
FA=""; [ "$FEAT" != "-" ] && FA="--features $FEAT"
cargo test -p $CRATE $FA --test seed_demo --offline >/tmp/seed/confirm_a.log 2>&1; A=$?
git apply $OUT/patch.diff || { echo '{"error":"patch does not apply"}'; exit 1; }
cargo test -p $CRATE $FA --test seed_demo --offline >/tmp/seed/confirm_b.log 2>&1; B=$?
rm crates/$CRATE/tests/seed_demo.rs
S=$(cargo test --workspace --no-fail-fast --offline 2>&1 | grep -E "^test result" | awk '{p+=$4; f+=$6} END {print p"/"f}')
git checkout -q -- .
echo "{\"demo_without_patch_rc\": $A, \"demo_with_patch_rc\": $B, \"suite_with_patch_passed_failed\": \"$S\"}"
