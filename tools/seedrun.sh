#!/bin/bash
# usage: seedrun.sh <patch.diff> <prop>...   -- applies a seeded change to a scratch copy of /repo and runs the named checks against it (dev aid; registered commands never use it)
set -u
PATCH=$1; shift
S=/tmp/s/repo
mkdir -p /tmp/s; rsync -a --delete --exclude target --exclude .git --out-format='%n' /repo/ $S/ | while read f; do [ -f "$S/$f" ] && touch "$S/$f"; done   # restored files get a fresh mtime, or cargo keeps the previous mutant's build
(cd $S && patch -p1 -s < "$PATCH") || { echo "SEEDRUN: patch failed"; exit 3; }
for P in "$@"; do
  (cd /verif && VERIF_EVIDENCE_DIR=/tmp/s/evidence VERIF_REPO=$S ./check $P 2>&1 | grep -E "VIOLATION|UNDECIDED|KNOWN|^check" | cut -c1-260)
done
