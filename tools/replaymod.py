"""replay + witness search: drives the bounded runtime-contract crate (rac/) on the real code."""
import json, os, subprocess, sys

ROOT = os.path.dirname(os.path.dirname(os.path.abspath(__file__)))


def search_witness(pid, violation, tier):
    """Try to find a concrete failing input/history for a failed proof obligation by running the
    executable form of the same contract (rac/) over the bounded enumeration. None when not found."""
    try:
        import racmod
    except Exception:
        return None
    try:
        return racmod.witness_for(pid, violation, tier)
    except Exception as e:
        return None


def replay(pid, path):
    d = json.load(open(path))
    print(f"replay {pid}: obligation {d.get('obligation')}")
    w = d.get("witness")
    if not w:
        print("no concrete input recorded (no-failing-input-found); verifier output follows")
        print(d.get("verifier_output") or d.get("verifier_message"))
        # re-run the property check: the obligation must still fail on the current tree
        return subprocess.call([os.path.join(ROOT, "check"), pid])
    import racmod
    return racmod.replay_witness(pid, w)
