"""vxver: the `@versionexprs` generator of vx (unit U19, property C19).

For every `pub fn compute_*` of the given source files it extracts, mechanically and on every run, ONE expression of the
real function: the version that the function presents for its stored results (argument 0 of `self.compute_init(..)` /
`self.validate_computed_version_or_reset(..)`), or, when the function delegates to another compute function, the argument
list of that call. Everything else of the function (the computation itself) is dropped.

Per function F three items are emitted:
  spec fn vspec_F(..ints..)          the expression read as integer arithmetic (x.version() => x, Version::new(c) => c, + => +)
  fn vexpr_F(..) -> Version          the REAL expression, over shim sources, checked by Verus against the real Version::add /
                                     Version::new contracts:  ensures r.0 == vspec_F(..)
  proof fn vsens_F()                 [C19.sources] for every source parameter s of F (every `&impl ReadableVec` / `&[&O]` parameter):
                                     changing the version of s alone changes vspec_F -- the stored results are tied to s.
A function whose shape the generator does not understand raises VxError (exit 2, undecided), never an alarm.
"""
import glob
import os
import re


def _split_top(s, sep=",", angle=True):
    out, cur, depth = [], "", 0
    i = 0
    in_closure_params = False
    while i < len(s):
        ch = s[i]
        if ch == "|" and depth == 0 and (in_closure_params or cur.strip() in ("", "move")):
            # `|a, b| body`: the commas between the bars belong to the closure's parameter list
            in_closure_params = not in_closure_params
            cur += ch
            i += 1
            continue
        if in_closure_params:
            cur += ch
            i += 1
            continue
        if ch in "([{" or (angle and ch == "<"):
            depth += 1
        elif ch in ")]}":
            depth -= 1
        elif angle and ch == ">" and (i == 0 or s[i - 1] not in "-="):
            depth -= 1
        if ch == sep and depth == 0:
            out.append(cur.strip())
            cur = ""
        else:
            cur += ch
        i += 1
    if cur.strip():
        out.append(cur.strip())
    return out


def _split_plus(e):
    """top-level `+` terms of an expression (only (), [] and {} nest here; generics inside turbofish are handled by _split_top's rule)"""
    out, cur, depth = [], "", 0
    i = 0
    while i < len(e):
        ch = e[i]
        if ch in "([{":
            depth += 1
        elif ch in ")]}":
            depth -= 1
        if ch == "+" and depth == 0:
            out.append(cur.strip())
            cur = ""
        else:
            cur += ch
        i += 1
    out.append(cur.strip())
    return out


SUM_RE = re.compile(r"\b(\w+)\s*\.\s*iter\s*\(\s*\)\s*\.\s*map\s*\(\s*\|\s*(\w+)\s*\|\s*\2\s*\.\s*version\s*\(\s*\)\s*\)\s*\.\s*sum\s*(?:::\s*<\s*Version\s*>\s*)?\(\s*\)")


class Fn:
    pass


def classify(ty):
    t = re.sub(r"\s+", " ", ty.strip())
    if re.match(r"^& ?\(? ?impl ReadableVec\b", t):
        return "src"
    if re.match(r"^& ?\[ ?& ?\w+ ?\]$", t):
        return "srclist"
    if t == "Version":
        return "version"
    return None


def scan_file(vx, rel, repo):
    text = open(os.path.join(repo, rel)).read()
    mask = vx.mask_rust(text)
    fns = []
    for m in re.finditer(r"\bfn\s+(compute_\w+)\b", mask):
        name = m.group(1)
        # parameter list: first '(' after the (optional) generics
        j = m.end()
        depth = 0
        while j < len(mask):
            ch = mask[j]
            if ch == "<":
                depth += 1
            elif ch == ">" and mask[j - 1] != "-":
                depth -= 1
            elif ch == "(" and depth == 0:
                break
            j += 1
        pc = vx.match_close(mask, j)
        params_txt = text[j + 1:pc]
        bo = mask.index("{", pc)
        # skip a where-clause that may contain braces? (none in this code base); body:
        bc = vx.match_close(mask, bo)
        f = Fn()
        f.name, f.rel, f.line = name, rel, text.count("\n", 0, m.start()) + 1
        f.params = []
        for p in _split_top(params_txt):
            if p in ("&mut self", "&self", "self", "mut self"):
                continue
            if ":" not in p:
                raise vx.VxError(f"unsupported construct: parameter `{p}` of {name} ({rel})")
            n, t = p.split(":", 1)
            n = n.strip()
            n = re.sub(r"^mut\s+", "", n)
            f.params.append((n, t.strip(), classify(t)))
        f.body = text[bo:bc + 1]
        f.body_mask = mask[bo:bc + 1]
        f.body_line = text.count("\n", 0, bo) + 1
        fns.append(f)
    return fns


def find_sink(vx, f, all_names):
    """first call, in body order, of self.compute_init / self.validate_computed_version_or_reset / self.compute_<other>"""
    best = None
    for m in re.finditer(r"\b(?:self|this)\s*\.\s*(compute_init|validate_computed_version_or_reset|compute_\w+)\s*\(", f.body_mask):
        callee = m.group(1)
        if callee not in ("compute_init", "validate_computed_version_or_reset") and callee not in all_names:
            continue
        best = m
        break
    if best is None:
        raise vx.VxError(f"unsupported construct: {f.name} ({f.rel}:{f.line}) presents no version (no compute_init / validate_computed_version_or_reset / delegation found)")
    po = best.end() - 1
    pc = vx.match_close(f.body_mask, po)
    args = _split_top(f.body[po + 1:pc], angle=False)   # call arguments: `<` `>` are comparisons here (a turbofish with a comma is unsupported)
    line = f.body_line + f.body.count("\n", 0, best.start())
    return best.group(1), args, line


def norm_expr(e):
    e = re.sub(r"\s+", " ", e.strip())
    e = SUM_RE.sub(lambda m: f"{m.group(1)}.version_sum()", e)
    return e


def to_exec_and_spec(vx, f, e, kept):
    """e: a Version-typed expression over the kept params. Returns (exec text using .add, spec text over ints)."""
    e = norm_expr(e)
    terms = _split_plus(e)
    ex, sp = [], []
    for t in terms:
        t = t.strip()
        m = re.match(r"^(\w+) ?\. ?version ?\( ?\)$", t)
        if m and kept.get(m.group(1)) == "src":
            ex.append(f"{m.group(1)}.version()"); sp.append(f"{m.group(1)}__v"); continue
        m = re.match(r"^(\w+) ?\. ?version_sum ?\( ?\)$", t)
        if m and kept.get(m.group(1)) == "srclist":
            ex.append(f"{m.group(1)}.version_sum()"); sp.append(f"{m.group(1)}__v"); continue
        m = re.match(r"^Version ?:: ?new ?\( ?(\d+) ?\)$", t)
        if m:
            ex.append(f"Version::new({m.group(1)})"); sp.append(m.group(1)); continue
        m = re.match(r"^Version ?:: ?(ZERO|ONE|TWO)$", t)
        if m:
            c = {"ZERO": 0, "ONE": 1, "TWO": 2}[m.group(1)]
            ex.append(f"Version::new({c})"); sp.append(str(c)); continue
        if re.match(r"^\w+$", t) and kept.get(t) == "version":
            ex.append(t); sp.append(f"{t}__v"); continue
        raise vx.VxError(f"unsupported construct: term `{t}` in the version expression of {f.name} ({f.rel}:{f.line})")
    exec_txt = ex[0] + "".join(f".add({x})" for x in ex[1:])
    spec_txt = " + ".join(sp)
    return exec_txt, spec_txt


def emit(vx, em, info, unit, d, repo):
    args, label = vx.split_label(d.args)
    label = label or "C19.sources"
    files = []
    for g in args.split():
        hits = sorted(glob.glob(os.path.join(repo, g)))
        if not hits:
            raise vx.VxError(f"lost anchor: @versionexprs `{g}` matches no file")
        files += [os.path.relpath(h, repo) for h in hits]
    fns = []
    for rel in files:
        fns += scan_file(vx, rel, repo)
        if rel not in info["sources"]:
            info["sources"].append(rel)
    by_name = {}
    for f in fns:
        if f.name in by_name:
            raise vx.VxError(f"unsupported construct: two compute functions named {f.name}")
        by_name[f.name] = f
    if not fns:
        raise vx.VxError("lost anchor: @versionexprs found no `pub fn compute_*`")
    # resolve sinks
    for f in fns:
        f.kept = [(n, k) for (n, t, k) in f.params if k]
        f.sink, f.sink_args, f.sink_line = find_sink(vx, f, by_name)
    # order: callees first
    order, seen = [], set()

    def visit(f, stack=()):
        if f.name in seen:
            return
        if f.name in stack:
            raise vx.VxError(f"unsupported construct: recursive delegation through {f.name}")
        if f.sink in by_name:
            visit(by_name[f.sink], stack + (f.name,))
        seen.add(f.name)
        order.append(f)
    for f in fns:
        visit(f)

    em.add("// ---------- generated by @versionexprs: the version each compute function presents for its stored results ----------")
    for f in order:
        kept = dict(f.kept)
        if f.sink in ("compute_init", "validate_computed_version_or_reset"):
            exec_txt, spec_txt = to_exec_and_spec(vx, f, f.sink_args[0], kept)
            what = f"argument 0 of self.{f.sink}(..)"
        else:
            g = by_name[f.sink]
            gp = [(n, k) for (n, t, k) in g.params]
            if len(f.sink_args) != len(gp):
                raise vx.VxError(f"unsupported construct: {f.name} calls {g.name} with {len(f.sink_args)} arguments, {len(gp)} expected")
            ex_args, sp_args = [], []
            for (pn, pk), a in zip(gp, f.sink_args):
                if not pk:
                    continue
                a = norm_expr(a)
                if pk in ("src", "srclist"):
                    m = re.match(r"^&? ?(\w+)$", a)
                    if not m or kept.get(m.group(1)) != pk:
                        raise vx.VxError(f"unsupported construct: {f.name} passes `{a}` for the source parameter `{pn}` of {g.name}")
                    ex_args.append(m.group(1)); sp_args.append(f"{m.group(1)}__v")
                else:
                    e1, s1 = to_exec_and_spec(vx, f, a, kept)
                    ex_args.append(e1); sp_args.append(s1)
            exec_txt = f"vexpr_{g.name}({', '.join(ex_args)})"
            spec_txt = f"vspec_{g.name}({', '.join(sp_args)})"
            what = f"arguments of the delegated call self.{g.name}(..)"
        f.spec_txt = spec_txt
        ty = {"src": "&Src", "srclist": "&SrcList", "version": "Version"}
        sp_params = ", ".join(f"{n}__v: int" for n, k in f.kept)
        ex_params = ", ".join(f"{n}: {ty[k]}" for n, k in f.kept)

        def val(n, k):
            return f"{n}.v()" if k in ("src", "srclist") else f"({n}.0 as int)"
        sp_call = ", ".join(val(n, k) for n, k in f.kept)
        em.add(f"pub open spec fn vspec_{f.name}({sp_params}) -> int {{ {spec_txt} }}")
        em.add(f"// ---------- extracted: {f.rel}:{f.sink_line} fn {f.name}: {what} ----------")
        first = len(em.lines) + 1
        body = (f"fn vexpr_{f.name}({ex_params}) -> (r: Version)\n"
                f"        requires\n            /*R:{d.lineno}:*/ 0 <= vspec_{f.name}({sp_call}) <= u32::MAX,\n"
                + "".join(f"            /*R:{d.lineno}:*/ 0 <= {val(n, k)},\n" for n, k in f.kept) +
                f"        ensures\n            /*E:{d.lineno}:{label}*/ r.0 == vspec_{f.name}({sp_call}),\n"
                f"    {{ /*FB*/\n        {exec_txt}\n    }}")
        em.add(body, {"kind": "fn", "fn": f"vexpr::{f.name}", "source": f.rel, "line": f.sink_line, "label": label})
        last = len(em.lines)
        info["vac_points"].append((first + body[:body.index("/*FB*/")].count("\n"), f"vexpr::{f.name}::entry"))
        info["clauses"].append({"fn": f"vexpr::{f.name}", "kind": "ensures", "label": label, "text": f"r.0 == vspec_{f.name}(..) where vspec = {spec_txt}"[:200], "sidecar_line": d.lineno})
        info["functions"].append({"trusted": False, "fn": f"vexpr::{f.name}", "source": f.rel, "line": f.sink_line, "label": label,
                                  "emitted_first": first, "emitted_last": last, "ensures": 1, "requires": 1 + len(f.kept), "loop_invariant_clauses": 0,
                                  "loops": 0, "asserts": 0, "obligations": 2})
        info["rewrites"].append({"rule": "N18.version_expr_only", "fn": f"vexpr::{f.name}", "from": f"{f.rel}:{f.line} fn {f.name} (whole body)", "to": exec_txt[:160]})
        # sensitivity: one clause per source parameter
        srcs = [(n, k) for n, k in f.kept if k in ("src", "srclist")]
        first = len(em.lines) + 1
        ens = []
        for n, k in srcs:
            others = [f"{m}__v: int" for m, _ in f.kept]
            alt = ", ".join((f"{m}__alt" if m == n else f"{m}__v") for m, _ in f.kept)
            cur = ", ".join(f"{m}__v" for m, _ in f.kept)
            ens.append(f"            /*E:{d.lineno}:{label}*/ forall|{', '.join(others)}, {n}__alt: int| {n}__alt != {n}__v ==> #[trigger] vspec_{f.name}({cur}) != #[trigger] vspec_{f.name}({alt}),")
            info["clauses"].append({"fn": f"vsens::{f.name}", "kind": "ensures", "label": label,
                                    "text": f"the version presented by {f.name} changes whenever the version of its source `{n}` changes", "sidecar_line": d.lineno})
        if not srcs:
            # a compute function without any source parameter (e.g. compute_to takes the version itself): nothing to be tied to
            continue
        body = (f"proof fn vsens_{f.name}()\n        ensures\n" + "\n".join(ens) + "\n    { /*FB*/ }")
        em.add(f"// ---------- generated obligation for {f.rel}:{f.line} fn {f.name}: sources = {', '.join(n for n, _ in srcs)} ----------")
        first = len(em.lines) + 1
        em.add(body, {"kind": "fn", "fn": f"vsens::{f.name}", "source": f.rel, "line": f.line, "label": label})
        last = len(em.lines)
        info["functions"].append({"trusted": False, "fn": f"vsens::{f.name}", "source": f.rel, "line": f.line, "label": label,
                                  "emitted_first": first, "emitted_last": last, "ensures": len(srcs), "requires": 0, "loop_invariant_clauses": 0,
                                  "loops": 0, "asserts": 0, "obligations": len(srcs)})
    info.setdefault("versionexprs", []).append({"files": files, "functions": len(fns), "direct": sum(1 for f in fns if f.sink not in by_name), "delegating": sum(1 for f in fns if f.sink in by_name)})
