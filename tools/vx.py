#!/usr/bin/env python3
"""vx -- mechanical extraction of real anydb functions into a Verus unit file.

Reads a unit sidecar (units/<U>/unit.vx), pulls the named items out of /repo's
*current working tree*, applies only the declared, logged rewrites (DESIGN.md 3.1),
injects the contracts / invariants / proof hints of the sidecar, and writes
  build/<U>/unit.rs        the file handed to Verus
  build/<U>/unit_vac.rs    vacuity probes (assert(false) at every fn and loop entry)
  build/<U>/unit.map.json  line map, rewrite log, obligation accounting, assumption scan

Exit codes: 0 ok, 2 extraction error / lost anchor (never a violation).
"""
import json, os, re, sys

REPO = os.environ.get("VERIF_REPO", "/repo")
ROOT = os.path.dirname(os.path.dirname(os.path.abspath(__file__)))


class VxError(Exception):
    pass


# ----------------------------------------------------------------------------
# lexing helpers
# ----------------------------------------------------------------------------

def mask_rust(text):
    """Return text of the same length with comments, string and char literals blanked."""
    out = list(text)
    i, n = 0, len(text)

    def blank(a, b):
        for k in range(a, b):
            if out[k] != "\n":
                out[k] = " "

    while i < n:
        c = text[i]
        if text.startswith("//", i):
            j = text.find("\n", i)
            j = n if j < 0 else j
            blank(i, j)
            i = j
        elif text.startswith("/*", i):
            depth, j = 1, i + 2
            while j < n and depth:
                if text.startswith("/*", j):
                    depth += 1; j += 2
                elif text.startswith("*/", j):
                    depth -= 1; j += 2
                else:
                    j += 1
            blank(i, j)
            i = j
        elif c == '"' or (c in "br" and re.match(r'b?r?#*"', text[i:i + 6])):
            m = re.match(r'(b?)(r?)(#*)"', text[i:])
            if not m:
                i += 1
                continue
            raw, hashes = m.group(2), m.group(3)
            j = i + m.end()
            if raw:
                endtok = '"' + hashes
                k = text.find(endtok, j)
                k = n if k < 0 else k + len(endtok)
            else:
                k = j
                while k < n and text[k] != '"':
                    k += 2 if text[k] == "\\" else 1
                k += 1
            blank(i + m.end() - 1 + 1, k - 1 - len(hashes) if raw else k - 1)
            i = k
        elif c == "'":
            m = re.match(r"'(\\x[0-9a-fA-F]{2}|\\u\{[0-9a-fA-F]+\}|\\.|[^\\'])'", text[i:])
            if m:
                blank(i + 1, i + m.end() - 1)
                i += m.end()
            else:
                i += 1  # lifetime
        else:
            i += 1
    return "".join(out)


OPEN = {"(": ")", "[": "]", "{": "}"}
CLOSE = {v: k for k, v in OPEN.items()}


def match_close(mask, i):
    """Index of the bracket matching mask[i]."""
    assert mask[i] in OPEN, (mask[i], i)
    depth = 0
    for j in range(i, len(mask)):
        ch = mask[j]
        if ch in OPEN:
            depth += 1
        elif ch in CLOSE:
            depth -= 1
            if depth == 0:
                return j
    raise VxError("unbalanced bracket")


TOK_RE = re.compile(r"""
    (?P<ws>\s+)
  | (?P<id>[A-Za-z_][A-Za-z0-9_]*!?)
  | (?P<num>[0-9][A-Za-z0-9_]*(?:\.[0-9][A-Za-z0-9_]*)?)
  | (?P<str>"(?:[^"\\]|\\.)*")
  | (?P<meta>\$[A-Za-z_][A-Za-z0-9_]*)
  | (?P<p>.)
""", re.X | re.S)


def tokenize(text, mask=None, allow_meta=False):
    """[(tok, start, end)] skipping whitespace and (via mask) comments. String literals are one token."""
    mask = mask if mask is not None else mask_rust(text)
    toks = []
    i, n = 0, len(text)
    while i < n:
        if mask[i].isspace() and not text[i].isspace():
            # inside comment/string interior
            if text[i - 1:i] == '"' or (toks and toks[-1][0].startswith('"') and False):
                pass
            i += 1
            continue
        ch = text[i]
        if ch.isspace():
            i += 1
            continue
        if ch == '"':
            # string literal: find end through mask (interior blanked, closing quote kept)
            j = i + 1
            while j < n and not (text[j] == '"' and mask[j] == '"'):
                j += 1
            toks.append((text[i:j + 1], i, j + 1))
            i = j + 1
            continue
        if allow_meta and ch == "$":
            m = re.match(r"\$[A-Za-z_][A-Za-z0-9_]*", text[i:])
            if m:
                toks.append((m.group(0), i, i + m.end()))
                i += m.end()
                continue
        m = re.match(r"[A-Za-z_][A-Za-z0-9_]*|[0-9][A-Za-z0-9_]*", text[i:])
        if m:
            toks.append((m.group(0), i, i + m.end()))
            i += m.end()
            continue
        toks.append((ch, i, i + 1))
        i += 1
    return toks


KEYWORDS = {"if", "let", "match", "return", "for", "in", "while", "loop", "else", "mut", "ref", "move", "break", "continue", "fn", "as", "where", "impl", "pub", "use", "unsafe"}


def strict_expr(seq):
    """A `$x` metavariable binds a postfix expression only: idents, numbers, `.`, `::`, `?`, literals and
    bracket groups at top level (no operators, no keywords); `$_x` binds any balanced sequence."""
    depth = 0
    for t in seq:
        if t in OPEN:
            depth += 1
            continue
        if t in CLOSE:
            depth -= 1
            continue
        if depth:
            continue
        if t in KEYWORDS:
            return False
        if re.match(r"[A-Za-z_0-9]", t) or t in (".", ":", "?") or t.startswith('"'):
            continue
        return False
    return True


def find_tokseq(toks, pat, start=0):
    """Yield (i, j, binds) where toks[i:j] matches pat (list of token strings; $x = balanced wildcard)."""
    n = len(toks)

    def balanced_ok(seq):
        st = []
        for t in seq:
            if t in OPEN:
                st.append(t)
            elif t in CLOSE:
                if not st or st.pop() != CLOSE[t]:
                    return False
        return not st

    def rec(ti, pi, binds):
        if pi == len(pat):
            return ti, binds
        p = pat[pi]
        if p.startswith("$") and len(p) > 1:
            if p in binds:
                seq = binds[p]
                if [t[0] for t in toks[ti:ti + len(seq)]] == seq:
                    return rec(ti + len(seq), pi + 1, binds)
                return None
            for ln in range(1, 600 if p.startswith("$_") else 60):
                if ti + ln > n:
                    break
                seq = [t[0] for t in toks[ti:ti + ln]]
                if seq[-1] in OPEN:
                    continue
                dd = 0
                semi0 = False
                for s_ in seq:
                    if s_ in OPEN: dd += 1
                    elif s_ in CLOSE: dd -= 1
                    elif s_ == ";" and dd == 0: semi0 = True
                if semi0:
                    break
                if not balanced_ok(seq):
                    # could become balanced later if only opens pending
                    st = 0
                    bad = False
                    for s in seq:
                        if s in OPEN: st += 1
                        elif s in CLOSE:
                            st -= 1
                            if st < 0: bad = True; break
                    if bad:
                        break
                    continue
                if not p.startswith("$_") and not strict_expr(seq):
                    continue
                b2 = dict(binds); b2[p] = seq
                r = rec(ti + ln, pi + 1, b2)
                if r:
                    return r
            return None
        if ti < n and toks[ti][0] == p:
            return rec(ti + 1, pi + 1, binds)
        return None

    i = start
    while i < n:
        r = rec(i, 0, {})
        if r:
            yield i, r[0], r[1]
            i = max(r[0], i + 1)
        else:
            i += 1


# ----------------------------------------------------------------------------
# item location
# ----------------------------------------------------------------------------

ITEM_RE = re.compile(
    r"(?:pub(?:\s*\([^)]*\))?\s+)?(?:default\s+)?(?:const\s+(?=fn|unsafe))?(?:unsafe\s+)?(?:extern\s+\"[^\"]*\"\s+)?"
    r"(?P<kw>fn|struct|enum|union|const|static|impl|trait|type|mod|macro_rules!)\b")


class Item:
    def __init__(self, kind, name, ctx, start, end, hdr_end, body_open, body_close):
        self.kind, self.name, self.ctx = kind, name, ctx
        self.start, self.end = start, end          # whole item incl. attrs/docs .. closing
        self.hdr_end = hdr_end                      # == body_open for braced items
        self.body_open, self.body_close = body_open, body_close
        self.impl_header = None

    def __repr__(self):
        return f"<{self.kind} {self.ctx}::{self.name}>"


def _skip_attrs_back(text, mask, pos):
    """pos = start of a line; move it back over directly preceding attribute / doc-comment lines."""
    while pos > 0:
        prev_end = pos - 1                      # the newline ending the previous line
        prev_start = text.rfind("\n", 0, prev_end) + 1
        line = text[prev_start:prev_end].strip()
        if line.startswith("///") or line.startswith("//!") or (line.startswith("#[") and line.endswith("]")):
            pos = prev_start
            continue
        break
    return pos


def scan_items(text, mask, lo, hi, ctx, out):
    i = lo
    while i < hi:
        m = ITEM_RE.search(mask, i, hi)
        if not m:
            break
        # must be at brace depth 0 relative to lo: check no unbalanced between i and m.start()
        seg = mask[i:m.start()]
        # skip over any bracketed groups between
        j = i
        skipped = False
        while j < m.start():
            if mask[j] in OPEN:
                j = match_close(mask, j) + 1
                if j > m.start():
                    skipped = True
                    break
            else:
                j += 1
        if skipped:
            i = j
            continue
        # ensure the keyword starts a token
        if m.start() > 0 and (mask[m.start() - 1].isalnum() or mask[m.start() - 1] == "_"):
            i = m.end()
            continue
        kw = m.group("kw")
        start = text.rfind("\n", 0, m.start()) + 1
        if text[start:m.start()].strip():
            start = m.start()
        start = _skip_attrs_back(text, mask, start) if start == text.rfind("\n", 0, m.start()) + 1 else start
        k = m.end()
        # find end: first '{' or ';' at depth 0 (skipping () [] <>-agnostic)
        j = k
        body_open = None
        while j < hi:
            ch = mask[j]
            if ch in "([":
                j = match_close(mask, j) + 1
                continue
            if ch == "{":
                body_open = j
                break
            if ch == ";":
                break
            j += 1
        if body_open is not None:
            body_close = match_close(mask, body_open)
            end = body_close + 1
            # struct X {...} has no trailing ';', tuple struct ends with ';'
        else:
            body_close = None
            end = j + 1
        header = mask[k:(body_open if body_open is not None else j)]
        name = None
        if kw == "impl":
            h = " ".join(header.split())
            # strip leading generics
            h2 = h
            if h2.startswith("<"):
                depth = 0
                for q, ch in enumerate(h2):
                    if ch == "<": depth += 1
                    elif ch == ">":
                        if h2[q - 1] == "-":
                            continue
                        depth -= 1
                        if depth == 0:
                            h2 = h2[q + 1:].strip()
                            break
            h2 = re.split(r"\bwhere\b", h2)[0].strip()
            name = h2
        else:
            mm = re.match(r"\s*([A-Za-z_][A-Za-z0-9_]*)", header)
            name = mm.group(1) if mm else "?"
        it = Item(kw, name, ctx, start, end, body_open if body_open is not None else j, body_open, body_close)
        out.append(it)
        if kw in ("impl", "trait", "mod") and body_open is not None:
            if kw == "impl":
                selfname = name
                it.impl_header = " ".join(text[m.start():body_open].split())
            else:
                selfname = name
                it.impl_header = " ".join(text[m.start():body_open].split())
            sub = []
            scan_items(text, mask, body_open + 1, body_close, (ctx + "::" if ctx else "") + selfname, sub)
            for s in sub:
                s.parent = it
            out.extend(sub)
        i = end
    return out


class Source:
    cache = {}

    def __init__(self, rel):
        self.rel = rel
        self.path = os.path.join(REPO, rel)
        if not os.path.exists(self.path):
            raise VxError(f"source file missing: {rel}")
        self.text = open(self.path).read()
        self.mask = mask_rust(self.text)
        self.items = scan_items(self.text, self.mask, 0, len(self.text), "", [])

    @classmethod
    def get(cls, rel):
        if rel not in cls.cache:
            cls.cache[rel] = Source(rel)
        return cls.cache[rel]

    def line_of(self, pos):
        return self.text.count("\n", 0, pos) + 1

    def find(self, kind, path, select=None):
        """path: 'Layout::insert_hole', 'From<&Regions> for Layout::from', 'Layout' (struct), free fn name."""
        def norm(s):
            return re.sub(r"\s+", "", s)
        want = norm(path)
        cands = []
        for it in self.items:
            if kind and it.kind != kind:
                continue
            full = norm((it.ctx + "::" if it.ctx else "") + it.name)
            if full == want:
                cands.append(it)
                continue
            # allow 'Type::fn' to match 'Trait for Type::fn' and generic 'Type<T, S>::fn'
            if it.ctx:
                c = it.ctx
                c2 = c.split(" for ")[-1]
                c3 = re.sub(r"<.*>$", "", c2.strip())
                for cc in (c2, c3):
                    if norm(cc + "::" + it.name) == want:
                        cands.append(it)
                        break
        if not cands:
            raise VxError(f"lost anchor: item `{path}` ({kind}) not found in {self.rel}")
        if len(cands) > 1 and select:
            def attrs_of(it):
                m = re.search(r"\bfn\b", self.mask[it.start:it.end])
                return " ".join(self.text[it.start:it.start + (m.start() if m else 0)].split())
            cands = [c for c in cands if " ".join(select.split()) in attrs_of(c)]
        if len(cands) > 1:
            raise VxError(f"ambiguous item `{path}` in {self.rel}: {cands}")
        if not cands:
            raise VxError(f"lost anchor: item `{path}` with attribute `{select}` not found in {self.rel}")
        return cands[0]


# ----------------------------------------------------------------------------
# sidecar parsing
# ----------------------------------------------------------------------------

class Directive:
    def __init__(self, name, args, lineno):
        self.name, self.args, self.lineno = name, args, lineno
        self.body = []

    @property
    def text(self):
        lines = self.body[:]
        while lines and not lines[-1].strip():
            lines.pop()
        while lines and not lines[0].strip():
            lines.pop(0)
        return "\n".join(lines)


def parse_sidecar(path):
    ds = []
    cur = None
    for ln, line in enumerate(open(path).read().split("\n"), 1):
        if line.startswith("@@"):
            continue  # sidecar comment
        if line.startswith("@include "):
            inc = os.path.join(os.path.dirname(path), line.split(None, 1)[1].strip())
            ds += parse_sidecar(inc)
            cur = None
            continue
        if line.startswith("@"):
            parts = line[1:].split(None, 1)
            cur = Directive(parts[0], parts[1].strip() if len(parts) > 1 else "", ln)
            ds.append(cur)
        elif cur is not None:
            cur.body.append(line)
    return ds


def split_label(args):
    m = re.search(r"\[([^\]]+)\]\s*$", args)
    if m:
        return args[:m.start()].strip(), m.group(1)
    return args.strip(), None


def split_clauses(text):
    """Split a requires/ensures/invariant block on top-level commas."""
    mask = mask_rust(text)
    out, depth, last = [], 0, 0
    angle = 0
    for i, ch in enumerate(mask):
        if ch in OPEN:
            depth += 1
        elif ch in CLOSE:
            depth -= 1
        elif ch == "|" and False:
            pass
        elif ch == "," and depth == 0:
            out.append(text[last:i]); last = i + 1
    out.append(text[last:])
    return [c.strip() for c in out if c.strip()]


# ----------------------------------------------------------------------------
# generic rules
# ----------------------------------------------------------------------------

LOG_MACROS = ("trace!", "debug!", "info!", "warn!", "error!")

# N7 idiom shims: (rule, token pattern, replacement template)
IDIOMS = [
    ("N7.entry_or_default_push", "$m.entry($k).or_default().push($v)", "btree_entry_or_default_push(&mut $m, $k, $v)"),
    ("N7.range_to_next_back", "$m.range(..$_k).next_back()", "btree_pred(&$m, $_k)"),
    ("N7.range_to_incl_next_back", "$m.range(..=$_k).next_back()", "btree_pred_incl(&$m, $_k)"),
    ("N7.range_from_next", "$m.range($_k..).next()", "btree_succ_ge(&$m, $_k)"),
    ("N7.last_key_value", "$m.last_key_value()", "btree_last(&$m)"),
    ("N7.first_key_value", "$m.first_key_value()", "btree_first(&$m)"),
    ("N7.u64_to_le", "($_x as u64).to_le_bytes()", "u64_to_le_bytes($_x as u64)"),
    ("N7.u32_to_le", "($_x as u32).to_le_bytes()", "u32_to_le_bytes($_x as u32)"),
    ("N7.u64_from_le", "u64::from_le_bytes($_e.try_into().unwrap())", "u64_from_le_slice(&$_e)"),
    ("N7.u32_from_le", "u32::from_le_bytes($_e.try_into().unwrap())", "u32_from_le_slice(&$_e)"),
    ("N7.usize_from_bytes", "usize::from_bytes($_e)", "usize_from_bytes($_e)"),
    ("N7.stamp_from_bytes", "Stamp::from_bytes($_e)", "stamp_from_bytes($_e)"),
    ("N7.map_or", "$o.map_or($_d, |$p| $_b)", "(match $o { None => $_d, Some($p) => $_b })"),
    ("N7.is_some_and", "$o.is_some_and(|$p| $_b)", "(match $o { Some($p) => $_b, None => false })"),
    ("N8.format", "format!($_a)", "StrH::msg()"),
    ("N3.wild_closure_param", "|_| $_e)", "|_e| $_e)"),
]


def subst(template, binds, text_of):
    def rep(m):
        return text_of(m.group(0))
    return re.sub(r"\$[A-Za-z_][A-Za-z0-9_]*", rep, template)


class FnText:
    """Mutable text of one extracted function with provenance of edits."""

    def __init__(self, text, unit, fnpath):
        self.text = text
        self.unit = unit
        self.fnpath = fnpath
        self.log = []

    def retok(self):
        self.mask = mask_rust(self.text)
        self.toks = tokenize(self.text, self.mask)

    def replace_tokpat(self, rule, pat_text, repl_template, count=None, where="", optional=False):
        """Replace all token-sequence matches. count: required number of matches (None = any >= 0)."""
        pat = [t[0] for t in tokenize(pat_text, allow_meta=True)]
        n = 0
        guard = 0
        while True:
            guard += 1
            if guard > 200:
                raise VxError("rewrite loop")
            self.retok()
            hit = None
            for (i, j, binds) in find_tokseq(self.toks, pat):
                hit = (i, j, binds)
                break
            if not hit:
                break
            i, j, binds = hit
            a, b = self.toks[i][1], self.toks[j - 1][2]

            def text_of(meta):
                seq = binds.get(meta)
                if seq is None:
                    raise VxError(f"rewrite {rule}: unbound {meta}")
                # recover original text span of the bound tokens
                # locate the sub-span inside i..j
                for s in range(i, j):
                    if [t[0] for t in self.toks[s:s + len(seq)]] == seq:
                        return self.text[self.toks[s][1]:self.toks[s + len(seq) - 1][2]]
                return " ".join(seq)
            new = subst(repl_template, binds, text_of)
            if new == self.text[a:b]:
                raise VxError(f"rewrite {rule}: replacement equals original")
            self.log.append({"rule": rule, "fn": self.fnpath, "from": " ".join(self.text[a:b].split()), "to": " ".join(new.split())})
            self.text = self.text[:a] + new + self.text[b:]
            n += 1
            if count is not None and n > count + 50:
                break
        if count is not None and n != count:
            raise VxError(f"lost anchor: rewrite {rule} in {self.fnpath}: expected {count} match(es) of `{' '.join(pat_text.split())}`, found {n}")
        return n

    def find_anchor(self, anchor, nth=1):
        self.retok()
        pat = [t[0] for t in tokenize(anchor, allow_meta=True)]
        k = 0
        for (i, j, binds) in find_tokseq(self.toks, pat):
            k += 1
            if k == nth:
                return self.toks[i][1], self.toks[j - 1][2]
        raise VxError(f"lost anchor: `{anchor}` (#{nth}) not found in {self.fnpath}")


def delete_log_macros(ft):
    """N4: delete `debug!(...);` style statements (and `if cond { debug!(..); }` left as is, with empty body)."""
    changed = True
    while changed:
        changed = False
        ft.retok()
        for idx, (t, a, b) in enumerate(ft.toks):
            if t + "!" in LOG_MACROS and idx + 2 < len(ft.toks) and ft.toks[idx + 1][0] == "!" and ft.toks[idx + 2][0] == "(":
                close = match_close(ft.mask, ft.toks[idx + 2][1])
                end = close + 1
                rest = ft.mask[end:]
                m = re.match(r"\s*;", rest)
                if m:
                    end += m.end()
                # also swallow a path prefix `log::`
                start = a
                ft.log.append({"rule": "N4.drop_log", "fn": ft.fnpath, "from": " ".join(ft.text[start:end].split())[:120], "to": ""})
                ft.text = ft.text[:start] + ft.text[end:]
                changed = True
                break


def thread_world(ft, effects):
    """N12: `x.eff(args)` ==> `x.eff(args, Tracked(w))` for every listed effect function (ghost-only argument)."""
    ft.retok()
    sites = []
    toks = ft.toks
    for idx, (t, a, b) in enumerate(toks):
        if t in effects and idx + 1 < len(toks) and toks[idx + 1][0] == "(" and (idx == 0 or toks[idx - 1][0] != "fn"):
            close = match_close(ft.mask, toks[idx + 1][1])
            inner = ft.mask[toks[idx + 1][2]:close].strip()
            sites.append((close, "Tracked(w)" if (not inner or inner.endswith(",")) else ", Tracked(w)", t))
    for close, ins, name in sorted(sites, reverse=True):
        ft.text = ft.text[:close] + ins + ft.text[close:]
        ft.log.append({"rule": "N12.world", "fn": ft.fnpath, "from": name + "(..)", "to": name + "(.., Tracked(w))"})


def normalize_if_let(ft):
    """N1 (let-chains) and N2 (`&x` reference sub-patterns) on every `if let`:
       if let P = E && C { B }          ==> if let P = E { if C { B } }      (only when no `else` follows)
       if let Some((&a, &b)) = E { B }  ==> if let Some((a__r, b__r)) = E { let a = *a__r; let b = *b__r; B }
    """
    done = set()
    guard = 0
    while True:
        guard += 1
        if guard > 100:
            raise VxError("normalize_if_let loop")
        ft.retok()
        toks, m = ft.toks, ft.mask
        target = None
        for idx in range(len(toks) - 1):
            if toks[idx][0] == "if" and toks[idx + 1][0] == "let" and toks[idx][1] not in done:
                target = idx
                break
        if target is None:
            return
        if_pos = toks[target][1]
        # header end = first '{' at depth 0
        j = toks[target + 1][2]
        while j < len(m):
            if m[j] in "([":
                j = match_close(m, j) + 1
                continue
            if m[j] == "{":
                break
            j += 1
        bo = j
        bc = match_close(m, bo)
        header = ft.text[toks[target + 1][2]:bo]          # after `let`
        hmask = m[toks[target + 1][2]:bo]
        # split at top-level '=' (not '==', '=>', '<=', '>=', '!=')
        depth = 0
        eq = None
        for q, ch in enumerate(hmask):
            if ch in OPEN: depth += 1
            elif ch in CLOSE: depth -= 1
            elif ch == "=" and depth == 0 and hmask[q + 1:q + 2] not in ("=", ">") and hmask[q - 1:q] not in ("=", "!", "<", ">"):
                eq = q
                break
        if eq is None:
            raise VxError(f"{ft.fnpath}: cannot parse `if let` header `{header.strip()}`")
        pat, rest = header[:eq], header[eq + 1:]
        rmask = hmask[eq + 1:]
        # split rest at top-level '&&'
        depth = 0
        conds = []
        last = 0
        q = 0
        while q < len(rmask) - 1:
            ch = rmask[q]
            if ch in OPEN: depth += 1
            elif ch in CLOSE: depth -= 1
            elif depth == 0 and rmask[q:q + 2] == "&&":
                conds.append(rest[last:q]); last = q + 2; q += 2
                continue
            q += 1
        conds.append(rest[last:])
        expr, chain = conds[0], conds[1:]
        # N2
        lets = []
        def repl(mm):
            name = mm.group(1)
            lets.append(f"let {name} = *{name}__r;")
            return name + "__r"
        pat2 = re.sub(r"&\s*([a-z_][A-Za-z0-9_]*)\b", repl, pat)
        if not chain and not lets:
            done.add(if_pos)
            continue
        after = m[bc + 1:]
        has_else = re.match(r"\s*else\b", after) is not None
        if chain and has_else:
            raise VxError(f"{ft.fnpath}: let-chain with `else` is outside the normaliser (N1)")
        body = ft.text[bo + 1:bc]
        if any("let " in c for c in chain):
            raise VxError(f"{ft.fnpath}: multi-let chain is outside the normaliser (N1)")
        inner = body
        for c in reversed(chain):
            inner = " if " + c.strip() + " {" + inner + "}\n"
        new = "if let " + pat2.strip() + " = " + expr.strip() + " { " + " ".join(lets) + inner + "}"
        old = ft.text[if_pos:bc + 1]
        rules = []
        if chain: rules.append("N1.let_chain")
        if lets: rules.append("N2.ref_pattern")
        ft.log.append({"rule": "+".join(rules), "fn": ft.fnpath, "from": " ".join(ft.text[if_pos:bo].split()), "to": " ".join(("if let " + pat2.strip() + " = " + expr.strip() + " { " + " ".join(lets) + (" if " + " && ".join(c.strip() for c in chain) + " {..}" if chain else "")).split())})
        ft.text = ft.text[:if_pos] + new + ft.text[bc + 1:]
        # the rewritten `if let` no longer matches (no chain, no & patterns); loop again


def normalize_closure_patterns(ft):
    """N3: closure `|(a, b)| E` ==> `|p__k| { let (a, b) = p__k; E }` (tuple pattern in closure parameter)."""
    k = 0
    while True:
        ft.retok()
        toks, m = ft.toks, ft.mask
        hit = None
        for idx in range(1, len(toks) - 1):
            if toks[idx][0] == "|" and toks[idx + 1][0] == "(" and toks[idx - 1][0] in ("(", ",", "=", "move", "return", "{", ";", "=>"):
                close = match_close(m, toks[idx + 1][1])
                rest = m[close + 1:]
                mm = re.match(r"\s*\|", rest)
                if mm:
                    hit = (toks[idx][1], toks[idx + 1][1], close, close + 1 + mm.end())
                    break
        if not hit:
            return
        k += 1
        pstart, po, pc, after = hit
        patt = ft.text[po:pc + 1]
        patt2 = re.sub(r"(?<![A-Za-z0-9])_(?![A-Za-z0-9_])", lambda mm: "_w", patt)
        # body
        j = after
        while m[j].isspace():
            j += 1
        if m[j] == "{":
            be = match_close(m, j) + 1
            body = ft.text[j + 1:be - 1]
        else:
            q = j
            while q < len(m):
                if m[q] in OPEN:
                    q = match_close(m, q) + 1
                    continue
                if m[q] in ",);":
                    break
                q += 1
            be = q
            body = ft.text[j:be]
        # `_` wildcards inside the tuple pattern are fine in a `let`; `&x` sub-patterns (N2) are bound by reference
        derefs = []
        def _rep(mm):
            derefs.append(f"let {mm.group(1)} = *{mm.group(1)}__r;")
            return mm.group(1) + "__r"
        patt = re.sub(r"&\s*([a-z_][A-Za-z0-9_]*)\b", _rep, patt)
        new = f"|p__{k}| {{ let {patt} = p__{k}; {' '.join(derefs)} {body.strip()} }}"
        ft.log.append({"rule": "N3.closure_tuple_param", "fn": ft.fnpath, "from": " ".join(ft.text[pstart:be].split()), "to": " ".join(new.split())})
        ft.text = ft.text[:pstart] + new + ft.text[be:]


# ----------------------------------------------------------------------------
# loops / closures
# ----------------------------------------------------------------------------

def find_loops(ft):
    """[(kw, kw_start, body_open, body_close)] in source order for for/while/loop in ft.text."""
    ft.retok()
    res = []
    toks = ft.toks
    for idx, (t, a, b) in enumerate(toks):
        if t in ("for", "while", "loop"):
            # `for` in `impl X for Y` / HRTB `for<'a>` cannot appear inside bodies we extract, except for<'a>
            if t == "for" and idx + 1 < len(toks) and toks[idx + 1][0] == "<":
                continue
            # body '{' = first '{' at depth 0 after kw (parens skipped)
            j = b
            m = ft.mask
            while j < len(m):
                if m[j] in "([":
                    j = match_close(m, j) + 1
                    continue
                if m[j] == "{":
                    break
                j += 1
            if j >= len(m):
                continue
            res.append((t, a, j, match_close(m, j)))
    return res


# ----------------------------------------------------------------------------
# unit assembly
# ----------------------------------------------------------------------------

class Emit:
    def __init__(self):
        self.lines = []
        self.map = []   # (first_line, last_line, info)

    def add(self, text, info=None):
        first = len(self.lines) + 1
        ls = text.split("\n")
        self.lines.extend(ls)
        if info:
            self.map.append((first, len(self.lines), info))

    def text(self):
        return "\n".join(self.lines) + "\n"


ASSUME_PAT = re.compile(r"\b(assume|admit)\s*\(|external_body|assume_specification|verifier::external\b|verifier::external_type_specification|#\[verifier::external|by\s*\(\s*nonlinear_arith\s*\)")


def scan_assumptions(text, origin):
    res = []
    mask = mask_rust(text)
    for ln, (line, ml) in enumerate(zip(text.split("\n"), mask.split("\n")), 1):
        m = re.search(r"\b(assume|admit)\s*\(|external_body|assume_specification|external_type_specification|verifier::external\b", ml)
        if m:
            res.append({"origin": origin, "line": ln, "kind": m.group(0).strip("( "), "text": line.strip()[:160]})
    return res


def build_unit(unit_dir, out_dir):
    ds = parse_sidecar(os.path.join(unit_dir, "unit.vx"))
    unit = os.path.basename(unit_dir.rstrip("/"))
    em = Emit()
    info = {"unit": unit, "functions": [], "rewrites": [], "assumptions": [], "clauses": [], "sources": [], "vac_points": []}
    typemap = []
    cur_source = None
    header_features = ["#![feature(allocator_api)]"]
    preludes = []
    i = 0
    # first pass: unit-level directives
    fn_blocks = []   # (directive, [sub-directives])
    top = []
    cur_fn = None
    for d in ds:
        if d.name in ("fn", "fn?"):
            cur_fn = (d, [])
            top.append(("fn", cur_fn))
        elif d.name in ("requires", "ensures", "rewrite", "loop", "loop?", "forloop", "closure", "hint", "hint?", "sig", "decreases", "recommends", "fnattr", "rename", "tracevar", "drop", "world", "hide", "subst"):
            if cur_fn is None:
                raise VxError(f"unit.vx:{d.lineno}: @{d.name} outside @fn")
            cur_fn[1].append(d)
        else:
            cur_fn = None
            top.append((d.name, d))

    em.add("\n".join(header_features))
    em.add("#![allow(unused, non_snake_case, non_camel_case_types, unused_parens, unused_braces)]")
    em.add("use vstd::prelude::*;")
    body_started = False
    sidecar_texts = []

    def start_body():
        nonlocal body_started
        if not body_started:
            em.add("verus! {")
            body_started = True

    for kind, d in top:
        if kind == "unit" or kind == "title" or kind == "serves":
            continue
        if kind == "source":
            cur_source = d.args.strip()
            if cur_source not in info["sources"]:
                info["sources"].append(cur_source)
            continue
        if kind == "use":
            em.add(d.args if d.args else d.text)
            continue
        if kind == "prelude":
            start_body()
            for f in d.args.split():
                p = os.path.join(ROOT, "prelude", f)
                txt = open(p).read()
                info["assumptions"] += scan_assumptions(txt, "prelude/" + f)
                em.add(f"// ---------- prelude/{f} (assumed contracts, trusted) ----------")
                em.add(txt, {"kind": "prelude", "file": f})
                preludes.append(f)
            continue
        if kind == "effects":
            info.setdefault("effects", [])
            info["effects"] += d.args.split() + d.text.split()
            continue
        if kind == "typemap":
            a, b = d.args.split("=>")
            typemap.append((a.strip(), b.strip()))
            continue
        if kind == "raw" or kind == "spec":
            start_body()
            txt = d.text
            bad = [a for a in scan_assumptions(txt, f"{unit}/unit.vx:{d.lineno}") if a["kind"] in ("assume", "admit")]
            if bad and "KNOWN-FINDING" not in d.args:
                raise VxError(f"unit.vx:{d.lineno}: assume/admit in sidecar spec block is not allowed")
            info["assumptions"] += scan_assumptions(txt, f"{unit}/unit.vx:{d.lineno}")
            em.add(f"// ---------- sidecar spec ({unit}/unit.vx:{d.lineno}) ----------")
            em.add(txt, {"kind": "spec", "sidecar_line": d.lineno, "label": split_label(d.args)[1]})
            sidecar_texts.append(txt)
            continue
        if kind == "specfile":
            start_body()
            p = os.path.join(unit_dir, d.args.strip())
            txt = open(p).read()
            bad = [a for a in scan_assumptions(txt, d.args) if a["kind"] in ("assume", "admit")]
            if bad:
                raise VxError(f"{p}: assume/admit in sidecar spec file is not allowed")
            info["assumptions"] += scan_assumptions(txt, f"{unit}/{d.args.strip()}")
            em.add(f"// ---------- {unit}/{d.args.strip()} ----------")
            em.add(txt, {"kind": "spec", "file": d.args.strip()})
            sidecar_texts.append(txt)
            continue
        if kind in ("struct", "enum", "const", "type", "item"):
            start_body()
            args, _ = split_label(d.args)
            parts = args.split()
            src = Source.get(cur_source)
            k = None if kind == "item" else kind
            it = src.find(k, parts[0])
            txt = src.text[it.start:it.end]
            txt = strip_attrs(txt)
            ft = FnText(txt, unit, parts[0])
            for sub in parse_inline_rewrites(d):
                ft.replace_tokpat(sub[0], sub[1], sub[2], count=sub[3])
            for a, b in typemap:
                ft.replace_tokpat("N6.typemap", a, b)
            txt = ft.text
            txt = re.sub(r"\bpub\s*\((?:super|crate|self|in [^)]*)\)", "pub", txt)
            txt = re.sub(r"^(\s*)(pub(\([^)]*\))?\s+)?(struct|enum|const|type)\b", r"\1pub \4", txt, count=1, flags=re.M)
            if kind in ("struct",):
                txt = make_fields_pub(txt)
            info["rewrites"] += ft.log
            em.add(f"// ---------- extracted: {cur_source}:{src.line_of(it.start)} {kind} {parts[0]} ----------")
            em.add(txt, {"kind": "item", "source": cur_source, "line": src.line_of(it.start), "name": parts[0]})
            continue
        if kind == "fn":
            start_body()
            emit_fn(em, info, unit, cur_source, d, typemap)
            continue
        if kind == "versionexprs":
            start_body()
            import vxver
            vxver.emit(sys.modules[__name__], em, info, unit, d, REPO)
            continue
        raise VxError(f"unit.vx:{d.lineno}: unknown directive @{kind}")

    em.add("fn main() {}")
    em.add("} // verus!")
    os.makedirs(out_dir, exist_ok=True)
    text = em.text()
    open(os.path.join(out_dir, "unit.rs"), "w").write(text)
    # vacuity files: function entries and loop bodies are probed in separate files (a failed entry probe is assumed
    # afterwards, which would make loop probes of non-isolated loops pass trivially)
    info["vac_probes"] = []
    # a failed probe is assumed afterwards, which makes every later probe on the same path pass trivially (function entry
    # before its loops; loop 1 before loop 2 when loops are not isolated): the k-th probe of every function goes to file k
    by_fn = {}
    for (ln, what) in sorted(info["vac_points"]):
        fnname = what.rsplit("::", 1)[0]
        by_fn.setdefault(fnname, []).append((ln, what))
    groups = {}
    for fnname, pts in by_fn.items():
        pts.sort(key=lambda x: (0 if x[1].endswith("::entry") else 1, x[0]))
        for k, pt in enumerate(pts):
            groups.setdefault(k, []).append(pt)
    for k in sorted(groups):
        fname = "unit_vac.rs" if k == 0 else f"unit_vac{k + 1}.rs"
        vac_lines = text.split("\n")
        for (ln, what) in sorted(groups[k], reverse=True):
            vac_lines.insert(ln, "    assert(false); // VACUITY-PROBE " + what)
        for idx, l in enumerate(vac_lines, 1):
            if "// VACUITY-PROBE " in l:
                info["vac_probes"].append({"file": fname, "line": idx, "what": l.split("// VACUITY-PROBE ")[1]})
        open(os.path.join(out_dir, fname), "w").write("\n".join(vac_lines))
    info["map"] = [{"first": a, "last": b, **c} for a, b, c in em.map]
    info["preludes"] = preludes
    json.dump(info, open(os.path.join(out_dir, "unit.map.json"), "w"), indent=1)
    return info


def strip_attrs(txt):
    out = []
    for line in txt.split("\n"):
        s = line.strip()
        if s.startswith("///") or s.startswith("//!"):
            continue
        md = re.match(r"#\[derive\((.*)\)\]$", s)
        if md:
            keep = [x.strip() for x in md.group(1).split(",") if x.strip() in ("Clone", "Copy", "PartialEq", "Eq")]
            if "PartialEq" in keep and "Eq" in keep:
                keep = ["Structural"] + keep      # lets Verus relate exec `==` on this type to spec equality
            if keep:
                out.append(line[:len(line) - len(line.lstrip())] + "#[derive(" + ", ".join(keep) + ")]")
            continue
        if re.match(r"#\[(inline|must_use|derive|allow|doc|cfg_attr|repr|cold|track_caller|error|cfg)\b.*\]$", s):
            continue
        line = re.sub(r"#\[(from|source)\]\s*", "", line)
        out.append(line)
    return "\n".join(out)


def make_fields_pub(txt):
    o = txt.find("{")
    if o < 0:
        return txt
    head, body = txt[:o + 1], txt[o + 1:]
    lines = []
    for line in body.split("\n"):
        m = re.match(r"^(\s*)(pub(\([^)]*\))?\s+)?([a-z_][A-Za-z0-9_]*\s*:)", line)
        if m:
            line = m.group(1) + "pub " + line[m.start(4):]
        lines.append(line)
    return head + "\n".join(lines)


def parse_inline_rewrites(d):
    """sub-rewrites written in the body of an @struct directive: lines `RULE: a => b`."""
    res = []
    for line in d.body:
        line = line.strip()
        if not line or line.startswith("#"):
            continue
        m = re.match(r"([A-Za-z0-9_.]+):\s*(.*?)\s*=>\s*(.*)$", line)
        if not m:
            raise VxError(f"unit.vx:{d.lineno}: bad inline rewrite `{line}`")
        res.append((m.group(1), m.group(2), m.group(3), 1))
    return res


def find_macro_fn(src, macro, fname):
    m = re.search(r"\bmacro_rules!\s*" + re.escape(macro) + r"\b", src.mask)
    if not m:
        raise VxError(f"lost anchor: macro_rules! {macro} not found")
    bo = src.mask.index("{", m.end())
    bc = match_close(src.mask, bo)
    f = re.search(r"\bfn\s+" + re.escape(fname) + r"\b", src.mask[bo:bc])
    if not f:
        raise VxError(f"lost anchor: fn {fname} not found in macro {macro}")
    start = bo + f.start()
    body_open = src.mask.index("{", start)
    body_close = match_close(src.mask, body_open)
    return Item("fn", fname, "", start, body_close + 1, body_open, body_open, body_close)


def emit_fn(em, info, unit, cur_source, blk, typemap):
    d, subs = blk
    args, fn_label = split_label(d.args)
    select = None
    if " @cfg " in args:
        args, select = args.split(" @cfg ", 1)
        select = select.strip()
    m = re.match(r"(.*?)(?:\s*->\s*([A-Za-z_][A-Za-z0-9_]*))?$", args)
    fnpath, retname = m.group(1).strip(), m.group(2)
    src = Source.get(cur_source)
    mm = re.match(r"macro\s+([A-Za-z_][A-Za-z0-9_]*)::([A-Za-z_][A-Za-z0-9_]*)$", fnpath)
    if mm:
        # N20: a method defined inside a `macro_rules!` body: located textually, the macro's `$x` parameters are substituted
        # by the sidecar's @subst lines (what the macro expansion does), then treated as a free function
        it = find_macro_fn(src, mm.group(1), mm.group(2))
    else:
        try:
            it = src.find("fn", fnpath, select)
        except VxError:
            if d.name == "fn?":
                info.setdefault("optional_missing", []).append(fnpath)
                return
            raise
    if it.body_open is None:
        raise VxError(f"{fnpath}: no body")
    raw = strip_attrs(src.text[it.start:it.end])
    if mm:
        for s_ in subs:
            if s_.name == "subst":
                a, b = (s_.args + " " + s_.text).strip().split("=>", 1)
                a, b = a.strip(), b.strip()
                if a not in raw:
                    raise VxError(f"lost anchor: @subst `{a}` not in macro fn {fnpath}")
                raw = raw.replace(a, b)
        if "$" in mask_rust(raw):
            raise VxError(f"unsupported construct: unsubstituted macro parameter in {fnpath}: {raw[raw.index('$'):][:30]}")
    ft = FnText(raw, unit, fnpath)
    if mm:
        ft.log.append({"rule": "N20.macro_fn", "fn": fnpath, "from": f"macro_rules! {mm.group(1)} {{ .. fn {mm.group(2)} .. }}", "to": "free function after @subst"})

    # ---- site rewrites marked `early`: applied to the repository text before the generic idioms (e.g. a format! whose value matters)
    for s in subs:
        if s.name == "rewrite" and "early" in s.args.split()[1:]:
            a = s.args.split()
            body = s.text
            parts = re.split(r"\n\s*=>\s*\n", "\n" + body + "\n", 1)
            find, rep = parts if len(parts) == 2 else body.split("=>", 1)
            cnt = 1
            for x in a[1:]:
                if x.startswith("count="):
                    cnt = None if x == "count=any" else int(x[6:])
            ft.replace_tokpat(a[0], find.strip(), rep.strip(), count=cnt)
    # ---- generic rules
    delete_log_macros(ft)
    for rule, pat, rep in IDIOMS:
        ft.replace_tokpat(rule, pat, rep)
    normalize_if_let(ft)
    normalize_closure_patterns(ft)
    # ---- declared site rewrites, in order
    for s in subs:
        if s.name == "rewrite" and "early" in s.args.split()[1:]:
            continue
        if s.name == "rewrite":
            a = s.args.split()
            rule = a[0] if a else "N?"
            count = 1
            for x in a[1:]:
                if x.startswith("count="):
                    count = None if x == "count=any" else int(x[6:])
            body = s.text
            parts = re.split(r"\n\s*=>\s*\n", "\n" + body + "\n", 1)
            if len(parts) == 2:
                find, rep = parts
            elif "=>" in body:
                find, rep = body.split("=>", 1)
            else:
                raise VxError(f"unit.vx:{s.lineno}: @rewrite needs `=>`")
            ft.replace_tokpat(rule, find.strip(), rep.strip(), count=count)
        elif s.name == "drop":
            a, b = ft.find_anchor(s.text.strip())
            e = stmt_end(ft, a)
            ft.log.append({"rule": "drop-stmt:" + (s.args.split()[0] if s.args else ""), "fn": fnpath, "from": " ".join(ft.text[a:e].split())[:160], "to": ""})
            ft.text = ft.text[:a] + ft.text[e:]
    for a, b in typemap:
        ft.replace_tokpat("N6.typemap", a, b)

    # ---- N12 world passing: calls to effect functions get the tracked world appended
    effects = info.get("effects", [])
    wants_world = any(s.name == "world" for s in subs)
    if effects and wants_world:
        thread_world(ft, effects)

    # ---- closures (by ordinal)
    for s in subs:
        if s.name == "closure":
            apply_closure_spec(ft, int(s.args.split()[0]), s.text.strip())

    # ---- for-loop conversion (N7.for): for PAT in EXPR { B }  ==>  PRE; loop SPEC { OPEN B CLOSE }
    loops_spec = {}
    for s in subs:
        if s.name == "forloop":
            a, lab = split_label(s.args)
            nth = int(a.split()[0])
            sec = {}
            cur = None
            for line in s.body:
                mm = re.match(r"%(match|pre|loop|open|close)\b\s?(.*)$", line)
                if mm:
                    cur = mm.group(1); sec[cur] = [mm.group(2)]
                elif cur:
                    sec[cur].append(line)
            sec = {k: "\n".join(v).strip() for k, v in sec.items()}
            loops = find_loops(ft)
            want = [t[0] for t in tokenize(sec.get("match", ""), allow_meta=True)]
            def hdr_toks(L):
                return [t[0] for t in tokenize(ft.text[L[1]:L[2]])]
            def hdr_match(L):
                # whole-header match; $x / $_x in %match bind sub-expressions of the header (substituted into %pre/%loop/%open/%close)
                htxt = ft.text[L[1]:L[2]]
                ht = tokenize(htxt)
                for (i, j, b) in find_tokseq(ht, want):
                    if i == 0 and j == len(ht):
                        out = {}
                        for k, v in b.items():
                            # the bound sub-expression as the repository spells it (token text joined blindly would split `..`)
                            txt = " ".join(v)
                            for s0 in range(len(ht)):
                                if [t[0] for t in ht[s0:s0 + len(v)]] == v:
                                    txt = htxt[ht[s0][1]:ht[s0 + len(v) - 1][2]]
                                    break
                            out[k] = txt
                        return out
                    break
                return None
            if nth > len(loops) or loops[nth - 1][0] != "for" or hdr_match(loops[nth - 1]) is None:
                # ordinal drifted (a loop was added or removed before it): locate the loop by its header
                cands = [k for k, L in enumerate(loops, 1) if L[0] == "for" and hdr_match(L) is not None]
                if len(cands) != 1:
                    raise VxError(f"lost anchor: {fnpath}: no unique `for` loop with header `{sec.get('match')}`")
                nth = cands[0]
            hb = hdr_match(loops[nth - 1])
            if hb:
                sec = {k: subst(v, hb, lambda m_: hb.get(m_, m_)) for k, v in sec.items()}
            kw, a0, bo, bc = loops[nth - 1]
            hdr = ft.text[a0:bo]
            new_head = sec.get("pre", "") + "\n        loop /*L:%d:%s*/\n" % (s.lineno, lab or "") + indent(sec.get("loop", ""), 12) + "\n        {\n" + indent(sec.get("open", ""), 12) + "\n"
            ft.log.append({"rule": "N7.for_to_loop", "fn": fnpath, "from": " ".join(hdr.split()), "to": " ".join((sec.get("pre", "") + " loop { " + sec.get("open", "") + " .. " + sec.get("close", "") + " }").split())})
            ft.text = ft.text[:a0] + new_head + ft.text[bo + 1:bc] + indent(sec.get("close", ""), 12) + "\n        }" + ft.text[bc + 1:]
            loops_spec[nth] = None  # already specified

    # ---- loops
    for s in subs:
        if s.name in ("loop", "loop?"):
            a, lab = split_label(s.args)
            key = a.strip()
            if re.fullmatch(r"\d+", key.split()[0] if key else ""):
                loops_spec[int(key.split()[0])] = (s, lab)
            else:
                want = [t[0] for t in tokenize(key.strip("`"))]
                cands = [k for k, L in enumerate(find_loops(ft), 1) if [t[0] for t in tokenize(ft.text[L[1]:L[2]])] == want]
                if len(cands) != 1:
                    if s.name == "loop?":
                        info.setdefault("optional_missing", []).append(f"{fnpath}: loop `{key}`")
                        continue
                    raise VxError(f"lost anchor: {fnpath}: no unique loop with header `{key}`")
                loops_spec[cands[0]] = (s, lab)
    loops = find_loops(ft)
    for nth in loops_spec:
        if nth < 1 or nth > len(loops):
            raise VxError(f"lost anchor: {fnpath} has {len(loops)} loop(s), sidecar names loop {nth}")
    ins = []
    for idx, (kw, a, bo, bc) in enumerate(loops, 1):
        sp = loops_spec.get(idx)
        txt = ""
        if sp:
            s, lab = sp
            txt = "/*L:%d:%s*/\n" % (s.lineno, lab or "") + indent(s.text, 12) + "\n        "
        ins.append((bo, txt, idx))
    for bo, txt, idx in sorted(ins, key=lambda x: -x[0]):
        ft.text = ft.text[:bo] + txt + "{ /*LB:%d*/" % idx + ft.text[bo + 1:]

    # ---- hints
    for s in subs:
        if s.name in ("hint", "hint?"):
            a, lab = split_label(s.args)
            mm = re.match(r"(entry|end|tail|before|after|afterblock|at)\b\s*(?:#(\d+)\s*)?(.*)$", a, re.S)
            if not mm:
                raise VxError(f"unit.vx:{s.lineno}: bad @hint `{a}`")
            pos_kind, nth, anchor = mm.group(1), int(mm.group(2) or 1), mm.group(3).strip().strip("`")
            txt = s.text
            if re.search(r"\b(assume|admit)\s*\(", mask_rust(txt)) and "KNOWN-FINDING" not in txt:
                raise VxError(f"unit.vx:{s.lineno}: assume/admit in sidecar hint is not allowed")
            if pos_kind == "entry":
                pos = body_open_of(ft) + 1
            elif pos_kind == "end":
                bo_ = body_open_of(ft)
                pos = match_close(ft.mask, bo_)
            elif pos_kind == "tail":
                pos = tail_start(ft)
            else:
                try:
                    a0, a1 = ft.find_anchor(anchor, nth)
                except VxError:
                    if s.name == "hint?":
                        info.setdefault("optional_missing", []).append(f"{fnpath}: hint anchor `{anchor}`")
                        continue
                    raise
                if pos_kind == "before":
                    pos = ft.text.rfind("\n", 0, a0) + 1
                elif pos_kind == "at":
                    pos = a0
                elif pos_kind == "after":
                    pos = stmt_end(ft, a0)
                else:
                    ft.retok()
                    j = a1
                    while ft.mask[j] != "{":
                        j += 1
                    pos = match_close(ft.mask, j) + 1
            ft.text = ft.text[:pos] + "\n/*H<:%d:%s*/\n" % (s.lineno, lab or "") + indent(txt, 8) + "\n/*H>*/\n" + ft.text[pos:]

    # ---- signature
    bo = body_open_of(ft)
    header = ft.text[:bo].rstrip()
    body = ft.text[bo:]
    for s in subs:
        if s.name == "sig":
            for line in s.text.split("\n"):
                if not line.strip():
                    continue
                a, b = line.split("=>")
                hft = FnText(header, unit, fnpath)
                hft.replace_tokpat("sig:" + (s.args or "N14"), a.strip(), b.strip(), count=1)
                header = hft.text
                ft.log += hft.log
    header = re.sub(r"^(\s*)(pub(\([^)]*\))?\s+)?((const\s+)?(unsafe\s+)?fn)\b", r"\1pub \4", header, count=1, flags=re.M)
    if any(s.name == "world" for s in subs):
        hm = mask_rust(header)
        po = params_open_of(hm)
        pc = match_close(hm, po)
        inner = hm[po + 1:pc].strip()
        wt = next(s for s in subs if s.name == "world").args.strip() or "Tracked(w): Tracked<&mut World>"
        header = header[:pc] + ((", " if inner and not inner.endswith(",") else " ") + wt) + header[pc:]
        ft.log.append({"rule": "N12.world", "fn": fnpath, "from": "signature", "to": "+ " + wt})
    if retname:
        hm = mask_rust(header)
        po = params_open_of(hm)
        pc = match_close(hm, po)
        arrow = hm.find("->", pc)
        if arrow < 0:
            raise VxError(f"{fnpath}: sidecar names a return value but the function has no return type")
        w = re.search(r"\bwhere\b", hm[arrow:])
        rend = arrow + w.start() if w else len(header)
        rtype = header[arrow + 2:rend].strip()
        header = header[:arrow] + f"-> ({retname}: {rtype})" + ("\n    " + header[rend:] if w else "")
    clauses_txt = ""
    for key in ("requires", "ensures"):
        parts = []
        for s in subs:
            if s.name == key:
                _, lab = split_label(s.args)
                for c in split_clauses(s.text):
                    parts.append((c, lab, s.lineno))
        if parts:
            clauses_txt += f"\n        {key}"
            for c, lab, sl in parts:
                clauses_txt += f"\n            /*{key[0].upper()}:{sl}:{lab or ''}*/ {c},"
                info["clauses"].append({"fn": fnpath, "kind": key, "label": lab, "text": " ".join(c.split())[:200], "sidecar_line": sl})
    for s in subs:
        if s.name == "decreases":
            clauses_txt += f"\n        decreases {s.text.strip()}"
    parent = getattr(it, "parent", None)
    fnattrs = "".join(s.text.strip() + "\n" for s in subs if s.name == "fnattr")
    prefix = fnattrs + header + clauses_txt + "\n    "
    # @hide names: Verus `hide(f);` headers (must be the first statements of the body); the definitions stay folded in this body
    hides = "".join("hide(%s); " % n for s_ in subs if s_.name == "hide" for n in (s_.args + " " + s_.text).split())
    body = "{ " + hides + "/*FB*/" + body[1:]
    full = prefix + body
    if parent is not None:
        hdr = re.sub(r"^pub(\s*\([^)]*\))?\s+", "", parent.impl_header)
        if parent.kind == "impl" and " for " in hdr:
            newhdr = re.sub(r"^impl(\s*<.*?>)?\s+.*?\s+for\s+", lambda mm: "impl" + (mm.group(1) or "") + " ", hdr, count=1)
            ft.log.append({"rule": "N15.trait_impl_as_inherent", "fn": fnpath, "from": hdr, "to": newhdr})
            hdr = newhdr
        elif parent.kind == "trait":
            # N15: a trait default method is emitted as an inherent method of a shim type named by an @rename of the trait header
            if not any(s.name == "rename" for s in subs):
                raise VxError(f"{fnpath}: trait default methods need an @rename impl header")
        for a, b in typemap:
            hdr = hdr.replace(a, b)
        for s in subs:
            if s.name == "rename":
                a, b = s.text.split("=>")
                if a.strip() not in hdr:
                    raise VxError(f"lost anchor: impl header rewrite `{a.strip()}` not in `{hdr}`")
                hdr = hdr.replace(a.strip(), b.strip())
                ft.log.append({"rule": "impl-header" if parent.kind != "trait" else "N15.trait_default_as_inherent", "fn": fnpath, "from": a.strip(), "to": b.strip()})
        full = hdr + " {\n" + full + "\n}"
    em.add(f"// ---------- extracted: {cur_source}:{src.line_of(it.start)} fn {fnpath} ----------")
    first_line = len(em.lines) + 1
    em.add(full, {"kind": "fn", "fn": fnpath, "source": cur_source, "line": src.line_of(it.start), "label": fn_label})
    last_line = len(em.lines)
    for ln in range(first_line, last_line + 1):
        l = em.lines[ln - 1]
        if "/*FB*/" in l and "external_body" not in fnattrs:
            info["vac_points"].append((ln, f"{fnpath}::entry"))
        for mm in re.finditer(r"/\*LB:(\d+)\*/", l):
            info["vac_points"].append((ln, f"{fnpath}::loop{mm.group(1)}"))
    # clause accounting
    fmask = mask_rust(full)
    n_asserts = len(re.findall(r"\bassert\s*(?:\(|forall)", fmask)) + len(re.findall(r"\b(assert!|unreachable!|debug_assert!|assert_eq!|panic!)", fmask))
    n_invs = 0
    for mi in re.finditer(r"\b(invariant|invariant_except_break|ensures)\b(.*?)(?=\b(ensures|decreases|invariant|invariant_except_break)\b|\{ /\*LB)", "".join(x for x in re.findall(r"/\*L:\d+:[^*]*\*/.*?\{ /\*LB", full, re.S)), re.S):
        n_invs += len(split_clauses(mi.group(2)))
    n_ens = sum(1 for c in info["clauses"] if c["fn"] == fnpath and c["kind"] == "ensures")
    n_req = sum(1 for c in info["clauses"] if c["fn"] == fnpath and c["kind"] == "requires")
    trusted_fn = "external_body" in fnattrs
    info["functions"].append({
        "trusted": trusted_fn,
        "fn": fnpath, "source": cur_source, "line": src.line_of(it.start), "label": fn_label,
        "emitted_first": first_line, "emitted_last": last_line,
        "ensures": n_ens, "requires": n_req, "loop_invariant_clauses": n_invs, "loops": len(loops),
        "asserts": n_asserts,
        # obligations: each ensures clause, each invariant clause twice (entry + preservation),
        # each assert / assert! / unreachable!, one termination obligation per loop, plus one implicit
        # safety obligation per function (overflow / index / callee preconditions: one Verus query)
        "obligations": 0 if trusted_fn else n_ens + 2 * n_invs + n_asserts + len(loops) + 1,
    })
    if trusted_fn:
        info["assumptions"].append({"origin": f"{unit}/unit.vx (fn {fnpath})", "line": d.lineno, "kind": "external_body", "text": f"real body of {fnpath} kept but trusted against its sidecar contract"})
    info["rewrites"] += ft.log


def params_open_of(hm):
    """index of the '(' opening the parameter list in a masked fn header (skips `<..>` generics, where `->` may occur)."""
    k = re.search(r"\bfn\b", hm).end()
    depth = 0
    j = k
    while j < len(hm):
        ch = hm[j]
        if ch == "<":
            depth += 1
        elif ch == ">" and hm[j - 1] != "-":
            depth -= 1
        elif ch == "(" and depth == 0:
            return j
        elif ch == "(":
            j = match_close(hm, j)
        j += 1
    raise VxError("no parameter list")


def indent(txt, n):
    pad = " " * n
    return "\n".join((pad + l if l.strip() else l) for l in txt.split("\n"))


def body_open_of(ft):
    """position of the '{' that opens the fn body in ft.text (first '{' at depth 0 after `fn`)."""
    ft.retok()
    m = ft.mask
    k = re.search(r"\bfn\b", m).end()
    j = k
    while j < len(m):
        if m[j] in "([":
            j = match_close(m, j) + 1
            continue
        if m[j] == "{":
            return j
        j += 1
    raise VxError(f"{ft.fnpath}: no body")


def tail_start(ft):
    """start of the tail expression of the fn body (or the body end when there is none)."""
    bo = body_open_of(ft)
    bc = match_close(ft.mask, bo)
    pos = bo + 1
    while True:
        m = ft.mask
        while pos < bc and m[pos].isspace():
            pos += 1
        if pos >= bc:
            return bc
        e = stmt_end(ft, pos)
        if e >= bc or not ft.mask[e:bc].strip():
            if ft.mask[:e].rstrip().endswith(";"):
                return bc
            return ft.text.rfind("\n", 0, pos) + 1
        pos = e


def stmt_end(ft, pos):
    """End (exclusive) of the statement that starts at/contains pos: the next ';' at the same depth,
    or the end of a block statement (`if/match/while/for/loop {}` with optional else chains)."""
    ft.retok()
    m = ft.mask
    j = pos
    n = len(m)
    while j < n:
        ch = m[j]
        if ch in "([":
            j = match_close(m, j) + 1
            continue
        if ch == "{":
            j = match_close(m, j) + 1
            # block statement ends here unless followed by else / method chain / ? / ;
            r = re.match(r"\s*(else\b|\.|\?|;|as\b)", m[j:])
            if r:
                if r.group(1) == ";":
                    return j + r.end()
                continue
            return j
        if ch == ";":
            return j + 1
        if ch == "}":
            return j  # ran into end of enclosing block (tail expr)
        j += 1
    return n


def apply_closure_spec(ft, nth, spec):
    """spec: new closure head, e.g. `|s: &usize| -> (keep: bool) ensures keep == (*s != start)`.
    The closure body expression is kept verbatim and wrapped in braces."""
    ft.retok()
    toks = ft.toks
    k = 0
    idx = 0
    found = None
    while idx < len(toks):
        t, a, b = toks[idx]
        prev = toks[idx - 1][0] if idx else ""
        if t == "|" and (prev in ("(", ",", "=", "move", "return", "{", ";", "=>") ):
            # closure start; params until next '|'
            if idx + 1 < len(toks) and toks[idx + 1][0] == "|":
                pend = idx + 1
            else:
                pend = idx + 1
                depth = 0
                while pend < len(toks):
                    tt = toks[pend][0]
                    if tt in OPEN: depth += 1
                    elif tt in CLOSE: depth -= 1
                    elif tt == "|" and depth == 0:
                        break
                    pend += 1
            k += 1
            if k == nth:
                found = (idx, pend)
                break
            idx = pend + 1
            continue
        idx += 1
    if not found:
        raise VxError(f"lost anchor: closure #{nth} not found in {ft.fnpath}")
    ps, pe = found
    body_start = toks[pe][2]
    # closure body: if starts with '{' -> block; else expression until ',' or ')' at depth 0
    m = ft.mask
    j = body_start
    while m[j].isspace():
        j += 1
    if m[j] == "{":
        be = match_close(m, j) + 1
        body_txt = ft.text[j:be]
    else:
        q = j
        while q < len(m):
            if m[q] in OPEN:
                q = match_close(m, q) + 1
                continue
            if m[q] in ",)" or m[q] == ";":
                break
            q += 1
        be = q
        body_txt = "{ " + ft.text[j:be].strip() + " }"
    old = ft.text[toks[ps][1]:be]
    new = spec + " " + body_txt
    ft.log.append({"rule": "closure-spec", "fn": ft.fnpath, "from": " ".join(old.split()), "to": " ".join(new.split())})
    ft.text = ft.text[:toks[ps][1]] + new + ft.text[be:]


def main():
    if len(sys.argv) < 3:
        print("usage: vx.py <unit_dir> <out_dir>")
        sys.exit(2)
    try:
        info = build_unit(sys.argv[1], sys.argv[2])
    except VxError as e:
        print(f"vx: EXTRACTION-ERROR: {e}")
        sys.exit(2)
    print(f"vx: {info['unit']}: {len(info['functions'])} functions, {sum(f['obligations'] for f in info['functions'])} obligations, "
          f"{len(info['rewrites'])} rewrites, {len(info['assumptions'])} assumption sites")


if __name__ == "__main__":
    main()
