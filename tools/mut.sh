#!/bin/bash
# usage: mut.sh <prop> <file-relative-to-repo> <python-regex> <replacement>   -- applies to a scratch copy, runs ./check, restores
set -u
P=$1; F=$2; PAT=$3; REP=$4
S=/tmp/s/repo
mkdir -p /tmp/s; rsync -a --delete --exclude target --exclude .git --out-format='%n' /repo/ $S/ | while read f; do [ -f "$S/$f" ] && touch "$S/$f"; done   # restored files get a fresh mtime, or cargo keeps the previous mutant's build
python3 - "$S/$F" "$PAT" "$REP" <<'PY'
import re,sys
p,pat,rep=sys.argv[1:4]
s=open(p).read()
n=len(re.findall(pat,s,flags=re.S))
if n!=1: print("MUT: pattern matched",n,"times"); sys.exit(3)
open(p,'w').write(re.sub(pat,rep,s,count=1,flags=re.S))
PY
[ $? -eq 0 ] || exit 3
cd /verif && VERIF_EVIDENCE_DIR=/tmp/s/evidence VERIF_REPO=$S ./check $P 2>&1 | grep -E "VIOLATION|UNDECIDED|^check" | cut -c1-260
