"""Kani component: overlay harness modules on a scratch copy of /repo, run cargo kani, parse per-harness verdicts."""
import json, os, re, shutil, subprocess, tempfile, time

ROOT = os.path.dirname(os.path.dirname(os.path.abspath(__file__)))
REPO = os.environ.get("VERIF_REPO", "/repo")


def run(spec, tier, seed, pid=None):
    """spec: 'vecdb:codecs' -> kani/vecdb/group.json['codecs']"""
    crate_dir, group = spec.split(":")
    gdir = os.path.join(ROOT, "kani", crate_dir)
    g = json.load(open(os.path.join(gdir, "group.json")))[group]
    tmp = tempfile.mkdtemp(prefix="verif-kani-")
    t0 = time.time()
    try:
        scratch = os.path.join(tmp, "repo")
        subprocess.check_call(["rsync", "-a", "--exclude", "target", "--exclude", ".git", REPO + "/", scratch + "/"])
        lost = []
        for rel, f in g["appends"].items():
            p = os.path.join(scratch, rel)
            if not os.path.exists(p):
                lost.append(rel)
                continue
            with open(p, "a") as fh:
                fh.write(open(os.path.join(gdir, f)).read())
        if lost:
            return {"unit": spec, "obligations": 0, "discharged": 0, "failures": [],
                    "undecided": [f"kani {spec}: lost anchor, overlay target file(s) missing: {lost}"]}
        harnesses = [h for h in g["harnesses"] if tier == "thorough" or not h.get("thorough_only")]
        if pid:
            harnesses = [h for h in harnesses if any(l == pid or l.startswith(pid + ".") for l in h["labels"].split())]
        if not harnesses:
            return {"unit": spec, "obligations": 0, "discharged": 0, "failures": [], "undecided": []}
        cmd = ["cargo", "kani", "-p", g["crate"], "-Z", "function-contracts", "-Z", "stubbing", "--output-format", "terse", "-j", "8"] + g.get("cargo_args", [])
        for h in harnesses:
            cmd += ["--harness", h["name"]]
        env = dict(os.environ, CARGO_NET_OFFLINE="true", CARGO_TARGET_DIR=os.path.join(tmp, "target"))
        log = os.path.join(tmp, "kani.log")
        with open(log, "w") as fh:
            try:
                p = subprocess.run(cmd, cwd=scratch, env=env, stdout=fh, stderr=subprocess.STDOUT, timeout=g.get("timeout", 3000))
                rc = p.returncode
            except subprocess.TimeoutExpired:
                rc = 124
        out = open(log, errors="replace").read()
        os.makedirs(os.path.join(ROOT, "build", "kani"), exist_ok=True)
        open(os.path.join(ROOT, "build", "kani", spec.replace(":", "_") + ".log"), "w").write(out[-400000:])
        # per-harness verdicts
        verdict = {}
        cur = {}       # thread id -> harness being checked
        th = None
        for line in out.split("\n"):
            mt = re.match(r"Thread (\d+):\s*(.*)$", line)
            if mt:
                th = mt.group(1)
                rest = mt.group(2)
                m = re.search(r"Checking harness ([A-Za-z0-9_:]+)", rest)
                if m:
                    cur[th] = m.group(1).split("::")[-1].rstrip(".")
                continue
            m = re.search(r"^Checking harness ([A-Za-z0-9_:]+)", line)
            if m:
                th = "main"
                cur[th] = m.group(1).split("::")[-1].rstrip(".")
                continue
            if "VERIFICATION:- SUCCESSFUL" in line and cur.get(th):
                verdict[cur[th]] = "ok"
            elif "VERIFICATION:- FAILED" in line and cur.get(th):
                verdict[cur[th]] = "failed"
        # parallel runs print a summary; parse it too
        for m in re.finditer(r"Verification failed for - ([A-Za-z0-9_:]+)", out):
            verdict[m.group(1).split("::")[-1]] = "failed"
        mm = re.search(r"Complete - (\d+) successfully verified harnesses, (\d+) failures, (\d+) total", out)
        failed_checks = {}
        for m in re.finditer(r"Failed Checks: (.*)\n\s*File: \"([^\"]+)\", line (\d+), in ([A-Za-z0-9_:<>]+)", out):
            failed_checks.setdefault(m.group(4).split("::")[-1], []).append(f"{m.group(1)} @ {os.path.relpath(m.group(2), scratch) if m.group(2).startswith(scratch) else m.group(2)}:{m.group(3)}")
        compile_failed = ("error: could not compile" in out or "error[E" in out) and not mm
        failures, undecided, funcs, samples = [], [], [], []
        ob = dis = 0
        if compile_failed or rc == 124 or (mm is None and not verdict):
            tail = "\n".join(out.strip().split("\n")[-15:])
            return {"unit": spec, "obligations": 0, "discharged": 0, "failures": [],
                    "undecided": [f"kani {spec}: build/tool failure or timeout (rc={rc}) -- harness overlay no longer compiles against the tree (lost anchor) or tool limit:\n{tail}"]}
        if mm and int(mm.group(2)) == 0 and int(mm.group(1)) == len(harnesses):
            for h in harnesses:
                verdict.setdefault(h["name"], "ok")
        for h in harnesses:
            v = verdict.get(h["name"])
            bounded = h["kind"] != "complete"
            if not bounded:
                ob += 1
            if v == "ok":
                if not bounded:
                    dis += 1
            elif v == "failed":
                fc = failed_checks.get(h["name"], [])
                failures.append({"engine": "kani", "unit": spec, "fn": h["name"], "kind": "kani-harness", "labels": h["labels"], "name": h["name"],
                                 "msg": "Kani harness failed: " + "; ".join(fc[:4]), "rendered": extract_block(out, h["name"]),
                                 "witness": {"engine": "kani", "spec": spec, "harness": h["name"], "failed_checks": fc[:6],
                                             "note": "re-run: ./check <id> --replay <this file> (re-verifies the harness on the current tree; Kani's trace is in verifier_output)"}})
            else:
                undecided.append(f"kani {spec}::{h['name']}: no verdict (rc={rc})")
            funcs.append({"unit": spec, "fn": "kani::" + h["name"], "source": "overlay " + ",".join(g["appends"].values()), "obligations": 0 if bounded else 1,
                          "verified": v == "ok", "backend": "kani-cbmc", "kind": h["kind"], "labels": h["labels"], "note": h.get("note", "")})
        samples = [{"harness": h["name"], "kind": h["kind"], "labels": h["labels"]} for h in harnesses[:3]]
        bounded_list = [{"engine": "kani-cbmc", "harness": h["name"], "bound": h.get("bound", ""), "verdict": verdict.get(h["name"])} for h in harnesses if h["kind"] != "complete"]
        return {"unit": spec, "obligations": ob, "discharged": dis, "failures": failures, "undecided": undecided, "functions": funcs,
                "samples": samples, "trusted": ["Kani/CBMC bit-precise semantics of rustc MIR; core::{to,from}_le_bytes as compiled (not assumed)"],
                "backend": {"name": "kani-cbmc", "wall_s": round(time.time() - t0, 1), "cmds": [" ".join(cmd[:12]) + " ... (%d harnesses)" % len(harnesses)]},
                "bounded": bounded_list or None, "labels": {h["name"]: h["labels"] for h in harnesses}}
    finally:
        shutil.rmtree(tmp, ignore_errors=True)


def extract_block(out, harness):
    i = out.find("Checking harness " + harness)
    if i < 0:
        i = out.find(harness)
    return out[i:i + 2500] if i >= 0 else ""
