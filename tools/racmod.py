"""rac component: bounded runtime-contract checking of the real crates (labelled bounded, never counted as proved)."""
import hashlib, json, os, re, shutil, subprocess, time

ROOT = os.path.dirname(os.path.dirname(os.path.abspath(__file__)))
REPO = os.environ.get("VERIF_REPO", "/repo")


def tree_hash():
    h = hashlib.sha256()
    for base in ("crates/rawdb/src", "crates/vecdb/src", "crates/rawdb/Cargo.toml", "crates/vecdb/Cargo.toml"):
        p = os.path.join(REPO, base)
        if os.path.isfile(p):
            h.update(open(p, "rb").read())
            continue
        for dp, dn, fn in sorted(os.walk(p)):
            dn.sort()
            for f in sorted(fn):
                fp = os.path.join(dp, f)
                h.update(fp.encode()); h.update(open(fp, "rb").read())
    for dp, dn, fn in sorted(os.walk(os.path.join(ROOT, "rac", "src"))):
        for f in sorted(fn):
            h.update(open(os.path.join(dp, f), "rb").read())
    return h.hexdigest()[:20]


def build():
    """(re)build the driver against REPO's current working tree; returns path of the binary or raises."""
    src = os.path.join(ROOT, "rac")
    if REPO != "/repo":
        # mutation testing on a scratch copy: same driver, path dependencies pointed at the copy
        alt = os.path.join(ROOT, "build", "rac-alt")
        shutil.rmtree(alt, ignore_errors=True)
        shutil.copytree(src, alt)
        ct = open(os.path.join(alt, "Cargo.toml")).read().replace("/repo/crates", REPO + "/crates")
        open(os.path.join(alt, "Cargo.toml"), "w").write(ct)
        cfg = open(os.path.join(alt, ".cargo", "config.toml")).read().replace("/verif/build/rac-target", os.path.join(ROOT, "build", "rac-alt-target"))
        open(os.path.join(alt, ".cargo", "config.toml"), "w").write(cfg)
        src = alt
        target = os.path.join(ROOT, "build", "rac-alt-target")
    else:
        target = os.path.join(ROOT, "build", "rac-target")
    # the target directory follows this checkout (rac/.cargo/config.toml names /verif/build/rac-target; a copy of /verif elsewhere must not share or miss it)
    env = dict(os.environ, CARGO_NET_OFFLINE="true", CARGO_TARGET_DIR=target)
    p = subprocess.run(["cargo", "build", "--release", "--offline"], cwd=src, env=env, capture_output=True, text=True)
    if p.returncode != 0:
        raise RuntimeError("rac driver does not build against the tree (API used by the contracts changed = lost anchor):\n" + p.stderr[-1500:])
    return os.path.join(target, "release", "rac")


_cache = {}


def run_suite(suite, args, seed):
    th = tree_hash()
    key = hashlib.sha256(json.dumps([suite, args, seed, th]).encode()).hexdigest()[:24]
    cdir = os.path.join(ROOT, "build", "rac-cache")
    os.makedirs(cdir, exist_ok=True)
    cp = os.path.join(cdir, key + ".json")
    if os.path.exists(cp) and time.time() - os.path.getmtime(cp) < 1800 and not os.environ.get("VERIF_NOCACHE"):
        d = json.load(open(cp))
        d["cached"] = True
        return d
    binp = build()
    t0 = time.time()
    cmd = [binp, suite] + args + ["--seed", str(seed)]
    p = subprocess.run(cmd, capture_output=True, text=True, timeout=7200)
    try:
        d = json.loads(p.stdout.strip().split("\n")[-1])
    except Exception:
        raise RuntimeError(f"rac {suite} produced no report (rc={p.returncode}): {p.stderr[-800:]}")
    d["wall_s"] = round(time.time() - t0, 1)
    d["cmd"] = "rac " + suite + " " + " ".join(args) + f" --seed {seed}"
    d["cached"] = False
    json.dump(d, open(cp, "w"))
    return d


def run(pid, spec, tier, seed):
    suite = spec["suite"]
    args = spec.get(tier) or spec["quick"]
    try:
        d = run_suite(suite, args, seed)
    except RuntimeError as e:
        return {"unit": "rac:" + suite, "obligations": 0, "discharged": 0, "failures": [], "undecided": [str(e)]}
    failures = []
    others = []
    for f in d.get("failures", []):
        cl = f["clause"]
        rec = {"engine": "rac", "unit": "rac:" + suite, "fn": suite, "kind": "runtime-contract", "labels": cl, "name": cl,
               "msg": f"runtime contract [{cl}] violated: {f['detail']}", "rendered": "history: " + "; ".join(f["history"]) + "\n" + f["detail"],
               "witness": {"engine": "rac", "suite": suite, "report_suite": d.get("suite", suite), "history": f["history"], "clause": cl, "detail": f["detail"]},
               "witness_key": "; ".join(f["history"])}
        if cl == pid or cl.startswith(pid + ".") or cl in spec.get("also", {}).get(pid, []):
            failures.append(rec)
        else:
            others.append(rec)
    # keep one representative per clause (the shortest history)
    best = {}
    for r in failures:
        k = r["labels"]
        if k not in best or len(r["witness"]["history"]) < len(best[k]["witness"]["history"]):
            best[k] = r
    clauses = spec.get("clauses", {}).get(pid, "")
    return {"unit": "rac:" + suite, "obligations": 0, "discharged": 0, "failures": list(best.values()), "undecided": [],
            "trusted": [],
            "backend": {"name": "rac-" + suite, "wall_s": d.get("wall_s"), "cmds": [d.get("cmd", "")], "cached": d.get("cached")},
            "bounded": {"engine": "rac (runtime contracts on the real crates)", "suite": suite, "bound": d.get("bound"), "exhaustive_within_bound": d.get("exhaustive"),
                        "evaluations": d.get("evaluations"), "contract_evaluations": d.get("steps"), "distinct_nontrivial": d.get("distinct_nontrivial"),
                        "rule": "a case = one operation history run from an empty store with every contract of this property evaluated after each step; distinct = distinct abstract states (shape of extents / contents lengths) reached",
                        "clauses_checked": clauses, "samples": d.get("samples", []),
                        "failures_for_other_properties": sorted({o["labels"] for o in others})},
            "samples": [{"bounded_history": s} for s in d.get("samples", [])[:2]],
            "functions": []}


def witness_for(pid, violation, tier):
    return None


def replay_witness(pid, w):
    if w.get("engine") == "kani":
        print("kani witness: re-running the property check")
        return subprocess.call([os.path.join(ROOT, "check"), pid])
    binp = build()
    rs = w.get("report_suite", w["suite"])
    env = dict(os.environ)
    target = w["suite"]
    if ":" in rs:
        kind, fmt = rs.split(":", 1)
        target = "vec:" + fmt
        if kind == "vecreads": env["RAC_READS"] = "1"
        if kind == "vecpages": env["RAC_PAGE_ALPHABET"] = "1"
        if kind == "vecchain": env["RAC_CHAIN_ALPHABET"] = "1"
    p = subprocess.run([binp, "replay", target, "; ".join(w["history"])], capture_output=True, text=True, env=env)
    print(p.stdout.strip())
    if p.returncode == 1:
        print(f"VIOLATION property={pid} replay=(replayed) clause={w.get('clause')}")
    return p.returncode
