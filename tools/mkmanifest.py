#!/usr/bin/env python3
"""Regenerate MANIFEST.json from props.json (claimed checks) and na.json (not applicable, with reasons)."""
import json, os
ROOT = os.path.dirname(os.path.dirname(os.path.abspath(__file__)))
props = json.load(open(os.path.join(ROOT, "props.json")))
na = json.load(open(os.path.join(ROOT, "na.json")))
ids = [json.loads(l)["id"] for l in open(os.path.join(ROOT, "properties.jsonl"))]
checks = []
for pid in ids:
    if pid not in props:
        continue
    c = props[pid]
    checks.append({
        "property_id": pid,
        "quick_cmd": f"./check {pid} --tier quick",
        "thorough_cmd": f"./check {pid} --tier thorough",
        "evidence_file": f"/verif/evidence/{pid}.json",
        "replay_cmd_template": f"./check {pid} --replay {{path}}",
        "engine": c.get("engine", "verus"),
        "level_claimed": {"category": c["level"], "text": c["level_text"], "design_ref": c.get("design_ref", "DESIGN.md section 5")},
        "level_note": c["level_note"],
        "technique": c["technique"],
    })
nalist = [{"property_id": pid, "reason": na[pid]} for pid in ids if pid not in props]
missing = [pid for pid in ids if pid not in props and pid not in na]
assert not missing, missing
m = {
    "version": 1,
    "setup_cmd": "./setup.sh",
    "hooks": {"guard": "anydb_verif", "enable": "RUSTFLAGS='--cfg anydb_verif' (only the rac/ driver builds /repo with it; Verus and Kani read the sources and need no hook)",
              "baseline_off_cmd": "cd /repo && cargo test --workspace --no-fail-fast --offline",
              "source_commits": json.load(open(os.path.join(ROOT, "hooks.json"))) if os.path.exists(os.path.join(ROOT, "hooks.json")) else [],
              "add_only": True},
    "engines": [
        {"name": "vx+verus", "path": "tools/vx.py, tools/driver.py, units/, prelude/", "serves_properties": [p for p in ids if p in props and props[p].get("verus_units")],
         "kind_free_text": "mechanical extraction of the real functions from /repo on every run + contract injection from sidecars; Verus/Z3 discharges every obligation modularly"},
        {"name": "kani", "path": "kani/, tools/kanimod.py", "serves_properties": [p for p in ids if p in props and props[p].get("kani")],
         "kind_free_text": "in-crate harness overlay on a scratch copy of /repo; loop-free full-domain harnesses (complete) and unwind-bounded ones (labelled bounded)"},
        {"name": "rac", "path": "rac/, tools/racmod.py", "serves_properties": [p for p in ids if p in props and props[p].get("rac")],
         "kind_free_text": "executable form of the same contracts run on the real crates over an exhaustively enumerated bounded space: witness search / replay and the labelled-bounded stand-in"},
    ],
    "checks": checks,
    "notes": "contract-based deductive verification of the real code; see DESIGN.md. exit 2 = undecided (never an alarm).",
    "not_applicable": nalist,
}
json.dump(m, open(os.path.join(ROOT, "MANIFEST.json"), "w"), indent=1)
print("MANIFEST: %d checks, %d not applicable" % (len(checks), len(nalist)))
