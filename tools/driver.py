"""driver for ./check: runs the components registered for a property and writes evidence."""
import hashlib, json, os, re, shutil, subprocess, sys, time

ROOT = os.path.dirname(os.path.dirname(os.path.abspath(__file__)))
REPO = os.environ.get("VERIF_REPO", "/repo")
BUILD = os.path.join(ROOT, "build")
VERUS_FLAGS = ["--edition", "2024", "--triggers-mode", "silent"]

sys.path.insert(0, os.path.join(ROOT, "tools"))
import vx  # noqa: E402


def load_props():
    return json.load(open(os.path.join(ROOT, "props.json")))


def load_known():
    p = os.path.join(ROOT, "KNOWN_FINDINGS.json")
    if not os.path.exists(p):
        return []
    return json.load(open(p)).get("findings", [])


class Undecided(Exception):
    pass


# --------------------------------------------------------------------------------------------
# Verus component
# --------------------------------------------------------------------------------------------

def run_verus(path, rlimit=None, seed=None, solver=None, multiple_errors=6, threads=16):
    cmd = ["verus", os.path.basename(path)] + VERUS_FLAGS + ["--error-format=json", "--output-json", "--time-expanded",
           "--multiple-errors", str(multiple_errors), "--num-threads", str(threads)]
    if rlimit:
        cmd += ["--rlimit", str(rlimit)]
    if seed is not None:
        cmd += ["--smt-option", f"smt.random_seed={seed}"]
    if solver == "cvc5":
        cmd += ["-V", "cvc5"]
    t0 = time.time()
    p = subprocess.run(cmd, cwd=os.path.dirname(path), capture_output=True, text=True)
    wall = time.time() - t0
    try:
        js = json.loads(p.stdout)
    except Exception:
        js = None
    diags = []
    for line in p.stderr.split("\n"):
        line = line.strip()
        if line.startswith("{"):
            try:
                d = json.loads(line)
            except Exception:
                continue
            if d.get("level") in ("error",) and d.get("spans"):
                diags.append(d)
            elif d.get("level") == "error" and "aborting" not in d.get("message", ""):
                diags.append(d)
    return {"cmd": " ".join(cmd), "rc": p.returncode, "json": js, "diags": diags, "stderr": p.stderr, "wall": wall}


def fn_breakdown(js):
    out = {}
    if not js:
        return out
    try:
        for m in js["times-ms"]["smt"]["smt-run-module-times"]:
            for f in m.get("function-breakdown", []):
                out[f["function"]] = f
    except Exception:
        pass
    return out


MARK = re.compile(r"/\*([REL]):(\d+):([^*]*)\*/")


def classify_diag(d, lines, info):
    """Map a Verus diagnostic to (fn, kind, labels, sidecar_line, text, line)."""
    msg = d.get("message", "")
    spans = d.get("spans", [])
    # prefer the span that points at a contract clause (non-primary, labelled), else primary
    chosen = None
    for s in spans:
        lab = (s.get("label") or "")
        if "failed this" in lab or "failed precondition" in lab or "failed this postcondition" in lab:
            chosen = s
    primary = next((s for s in spans if s.get("is_primary")), spans[0] if spans else None)
    fn = None
    kind = "implicit"
    labels, sl = "", None
    ptline = primary["line_start"] if primary else None

    def fn_at(line):
        for f in info["functions"]:
            if f["emitted_first"] <= line <= f["emitted_last"]:
                return f["fn"]
        for m in info["map"]:
            if m["first"] <= line <= m["last"]:
                return m.get("file") or m.get("name") or ("sidecar:%s" % m.get("sidecar_line"))
        return None

    if ptline:
        fn = fn_at(ptline)
    # clause marker
    for s in ([chosen] if chosen else []) + ([primary] if primary else []):
        ln = s["line_start"]
        txt = lines[ln - 1] if 0 < ln <= len(lines) else ""
        m = MARK.search(txt)
        # multi-line clause: look upwards a few lines within header
        k = ln
        while not m and k > 1 and k > ln - 12:
            k -= 1
            t2 = lines[k - 1]
            if "/*FB*/" in t2 or "/*H>*/" in t2:
                break
            m = MARK.search(t2)
            if m and m.group(1) == "L":
                break
        if m and (s is chosen or "postcondition" in msg or "invariant" in msg or "precondition" in msg and s is chosen):
            kind = {"R": "requires", "E": "ensures", "L": "loop-spec"}[m.group(1)]
            sl, labels = int(m.group(2)), m.group(3)
            if s is chosen and fn_at(ln):
                # a failed *precondition of a callee* is attributed to the caller (primary span)
                if "precondition" in msg:
                    kind = "call-precondition"
                    callee = fn_at(ln)
                    labels = labels
                    return {"fn": fn, "kind": kind, "labels": labels, "sidecar_line": sl, "callee": callee,
                            "msg": msg, "line": ptline, "text": (lines[ptline - 1].strip() if ptline else "")}
            break
    if kind == "implicit" and "precondition not satisfied" in msg:
        kind = "call-precondition"
        if chosen:
            ln = chosen["line_start"]
            # a shim precondition carries its labels in a trailing comment (`requires ...   // C14.force ...`)
            cl = lines[ln - 1] if 0 < ln <= len(lines) else ""
            labels = labels or " ".join(re.findall(r"\bC\d\d\.[A-Za-z0-9_-]+", cl.split("//", 1)[1] if "//" in cl else ""))
            return {"fn": fn, "kind": kind, "labels": labels, "sidecar_line": sl, "callee_clause": (lines[ln - 1].strip() if 0 < ln <= len(lines) else ""),
                    "msg": msg + " :: " + (lines[ln - 1].strip()[:160] if 0 < ln <= len(lines) else ""), "line": ptline, "text": (lines[ptline - 1].strip() if ptline else "")}
    if kind == "implicit" and ptline:
        # inside a hint block?
        k = ptline
        while k >= 1:
            t2 = lines[k - 1]
            if "/*H>*/" in t2 and k != ptline:
                break
            m = re.search(r"/\*H<:(\d+):([^*]*)\*/", t2)
            if m:
                kind, sl, labels = "hint-assert", int(m.group(1)), m.group(2)
                break
            if "/*FB*/" in t2:
                break
            k -= 1
        if kind == "implicit" and ("invariant" in msg or "loop" in msg or "decreases" in msg):
            k = ptline
            while k >= 1 and k > ptline - 40:
                m = re.search(r"/\*L:(\d+):([^*]*)\*/", lines[k - 1])
                if m:
                    kind, sl, labels = "loop-spec", int(m.group(1)), m.group(2)
                    break
                k -= 1
    return {"fn": fn, "kind": kind, "labels": labels, "sidecar_line": sl, "msg": msg, "line": ptline,
            "text": (lines[ptline - 1].strip() if ptline and ptline <= len(lines) else "")}


def is_resource_out(d):
    m = d.get("message", "")
    return "Resource limit" in m or "rlimit" in m or "timed out" in m or "timeout" in m


def front_end_failed(res):
    """rustc / Verus front-end (VIR) errors are not SMT results: no verification-results, or a VIR error."""
    js = res["json"]
    if js is None or "verification-results" not in js:
        return True
    vr = js["verification-results"]
    # rustc errors abort before any query is run: encountered-error with zero verification errors
    if vr.get("encountered-error") and not vr.get("errors"):
        return True
    return bool(vr.get("encountered-vir-error"))


def verus_unit(unit, tier, seed):
    udir = os.path.join(ROOT, "units", unit)
    out = os.path.join(BUILD, unit)
    shutil.rmtree(out, ignore_errors=True)
    try:
        info = vx.build_unit(udir, out)
    except vx.VxError as e:
        raise Undecided(f"{unit}: extraction error: {e}")
    path = os.path.join(out, "unit.rs")
    lines = open(path).read().split("\n")
    res = run_verus(path)
    if front_end_failed(res):
        raise Undecided(f"{unit}: front-end error (lost anchor / unsupported construct / tool crash), rc={res['rc']}: " +
                        "; ".join((d['message'][:300] + " @unit.rs:" + str((d['spans'] or [{}])[0].get('line_start'))) for d in res['diags'][:3]) + res['stderr'][-300:] * (not res['diags']))
    fb = fn_breakdown(res["json"])
    failures, undecided = [], []
    attempts = [("z3 rlimit=default", res)]
    ro = [d for d in res["diags"] if is_resource_out(d)]
    hard = [d for d in res["diags"] if not is_resource_out(d)]
    if ro or hard:
        # retries: a proof is a proof -- any configuration that verifies a function discharges it.
        # (only functions that failed are re-run)
        failing_fns = sorted({classify_diag(d, lines, info)["fn"] or "?" for d in res["diags"]})
        for (rl, sd) in ((40, None), (40, 1 + seed), (120, 2 + seed)):
            r2 = run_verus(path, rlimit=rl, seed=sd)
            attempts.append((f"z3 rlimit={rl} seed={sd}", r2))
            if r2["json"] is None:
                continue
            fb2 = fn_breakdown(r2["json"])
            still = [d for d in r2["diags"]]
            # per-function: success in this attempt => discharged
            ok_now = {classify_diag(d, lines, info)["fn"] for d in res["diags"]} - {classify_diag(d, lines, info)["fn"] for d in still}
            res_d = []
            for d in res["diags"]:
                if classify_diag(d, lines, info)["fn"] in ok_now:
                    continue
                res_d.append(d)
            # merge: keep diagnostics of the latest attempt for still-failing fns
            keep = [d for d in still if classify_diag(d, lines, info)["fn"] not in ok_now]
            res = dict(res)
            res["diags"] = keep
            for k, v in fb2.items():
                if v.get("success"):
                    fb[k] = v
            if not keep:
                break
            if all(not is_resource_out(d) for d in keep) and rl >= 40 and sd is not None:
                break
    for d in res["diags"]:
        c = classify_diag(d, lines, info)
        c["unit"] = unit
        c["rendered"] = d.get("rendered", "")[:3000]
        if is_resource_out(d):
            undecided.append(c)
        else:
            failures.append(c)
    # vacuity
    vac = {"probes": len(info["vac_probes"]), "failed_as_expected": 0, "vacuous": []}
    for vfile in sorted({p.get("file", "unit_vac.rs") for p in info["vac_probes"]}):
        vpath = os.path.join(out, vfile)
        rv = run_verus(vpath, multiple_errors=20)
        if front_end_failed(rv):
            raise Undecided(f"{unit}: vacuity run crashed: {rv['stderr'][-400:]}")
        def hits_of(run):
            h = set()
            for d in run["diags"]:
                for s in d.get("spans", []):
                    h.add(s["line_start"])
            return h
        hit = hits_of(rv)
        mine = [p for p in info["vac_probes"] if p.get("file", "unit_vac.rs") == vfile]
        if any(p["line"] not in hit for p in mine):
            # a probe that did not fail may just have been cut off by the resource limit of its function: retry once with a
            # larger limit; if the function still runs out, the probe is inconclusive (reported, never counted as vacuous)
            rv2 = run_verus(vpath, multiple_errors=20, rlimit=120)
            if not front_end_failed(rv2):
                hit |= hits_of(rv2)
                rv["wall"] += rv2["wall"]
                rv["diags"] += rv2["diags"]
        out_lines = [s_["line_start"] for d in rv["diags"] if is_resource_out(d) for s_ in d.get("spans", [])]
        for p in mine:
            if p["line"] in hit:
                vac["failed_as_expected"] += 1
                continue
            fnname = p["what"].rsplit("::", 1)[0]
            rng = [(f["emitted_first"], f["emitted_last"] + 2) for f in info["functions"] if f["fn"] == fnname]
            if rng and any(rng[0][0] <= ln <= rng[0][1] + 40 for ln in out_lines):
                vac.setdefault("inconclusive", []).append(p["what"])
            else:
                vac["vacuous"].append(p["what"])
        res["vac_wall"] = res.get("vac_wall", 0) + rv["wall"]
    # per function status
    funcs = []
    failing_fn_names = {f["fn"] for f in failures} | {u["fn"] for u in undecided}
    for f in info["functions"]:
        key = None
        short = f["fn"].split("::")[-1]
        stat = None
        for k, v in fb.items():
            if k.endswith("::" + short) and (f["fn"].split("::")[0].split("<")[0].split(" ")[-1] in k or "::" not in f["fn"]):
                stat = v
        funcs.append({**f, "verified": f["fn"] not in failing_fn_names, "smt_ms": (stat or {}).get("time"), "rlimit": (stat or {}).get("rlimit")})
    vr = (res["json"] or {}).get("verification-results", {})
    return {"unit": unit, "info": info, "functions": funcs, "failures": failures, "undecided": undecided, "vacuity": vac,
            "verus_cmd": res["cmd"], "attempts": [a for a, _ in attempts], "wall": res["wall"],
            "verified_total": vr.get("verified"), "errors_total": vr.get("errors"),
            "smt_ms": sum((v.get("time") or 0) for v in fb.values())}


# --------------------------------------------------------------------------------------------
# main
# --------------------------------------------------------------------------------------------

def labels_of(s):
    return set((s or "").replace(",", " ").split())


# a property that rests on another one's invariant counts that property's clauses too (declared, not inferred):
# C05 (crash images are disjoint and inside the file) and C12 (compact punches only free space) both rest on the layout partition of C02
RESTS_ON = {"C05": ("C02",), "C12": ("C02",)}


def serves(labels, pid):
    pids = (pid,) + RESTS_ON.get(pid, ())
    return any(l == q or l.startswith(q + ".") for l in labels for q in pids)


def main(argv):
    if not argv:
        print(__doc__ if __doc__ else "usage: check <id> [--tier quick|thorough]")
        return 2
    pid = argv[0]
    tier = os.environ.get("VERIF_TIER", "quick")
    replay = None
    i = 1
    while i < len(argv):
        if argv[i] == "--tier":
            tier = argv[i + 1]; i += 2
        elif argv[i] == "--replay":
            replay = argv[i + 1]; i += 2
        else:
            i += 1
    seed = int(os.environ.get("VERIF_SEED", "0") or 0)
    props = load_props()
    if pid not in props:
        print(f"check: property {pid} has no registered check")
        return 2
    if replay:
        import replaymod
        return replaymod.replay(pid, replay)
    cfg = props[pid]
    known = [k for k in load_known() if k.get("property") == pid and k.get("status") == "known"]
    t0 = time.time()
    comps = []
    violations, undecided, notes = [], [], []
    known_hit = []
    # every component runs even when another one is undecided: a violation found elsewhere must still be reported
    # development aid (never used by the registered commands): VERIF_ONLY_UNITS=U3,U1 restricts the run to those Verus units
    only = [x for x in os.environ.get("VERIF_ONLY_UNITS", "").split(",") if x]
    if only:
        cfg = dict(cfg, verus_units=[u for u in cfg.get("verus_units", []) if u in only], kani=[], rac=[])
    for u in cfg.get("verus_units", []):
        try:
            comps.append(("verus", verus_unit(u, tier, seed)))
        except Undecided as e:
            undecided.append(str(e))
    for k in cfg.get("kani", []):
        import kanimod
        comps.append(("kani", kanimod.run(k, tier, seed, pid)))
    for k in cfg.get("rac", []):
        import racmod
        comps.append(("rac", racmod.run(pid, k, tier, seed)))

    obligations = discharged = 0
    fn_rows = []
    trusted = set()
    rewrites = []
    assumptions = []
    samples = []
    backends = {}
    for kind, r in comps:
        if kind == "verus":
            info = r["info"]
            # which functions serve this property: any clause / fn label naming it; unlabelled units serve all
            fl = {}
            for c in info["clauses"]:
                fl.setdefault(c["fn"], set()).update(labels_of(c["label"]))
            for f in r["functions"]:
                labs = fl.get(f["fn"], set()) | labels_of(f.get("label"))
                # loop / hint labels
                f["labels"] = sorted(labs)
            unit_serves_all = not any(serves(labels_of(c["label"]), pid) for c in info["clauses"]) and not any(serves(labels_of(f.get("label")), pid) for f in r["functions"])
            for f in r["functions"]:
                if not (unit_serves_all or serves(set(f["labels"]), pid)):
                    continue
                if f.get("trusted"):
                    trusted.add(f"{r['unit']}::{f['fn']} (real body, contract assumed: external_body)")
                obligations += f["obligations"]
                if f["verified"]:
                    discharged += f["obligations"]
                fn_rows.append({"unit": r["unit"], "fn": f["fn"], "source": f"{f['source']}:{f['line']}", "obligations": f["obligations"],
                                "ensures": f["ensures"], "requires": f["requires"], "loop_invariant_clauses": f["loop_invariant_clauses"],
                                "verified": f["verified"], "smt_ms": f["smt_ms"], "backend": "verus-z3"})
            served_fns = {x["fn"] for x in fn_rows if x["unit"] == r["unit"]}
            for fail in r["failures"]:
                labs = labels_of(fail["labels"])
                relevant = (unit_serves_all or serves(labs, pid) or (not labs and (fail["fn"] in served_fns or fail["fn"] is None or str(fail["fn"]).startswith("sidecar") or str(fail["fn"]).endswith(".rs"))))
                if not relevant:
                    notes.append(f"{r['unit']}::{fail['fn']} fails a clause labelled for another property ({fail['labels']}): {fail['msg']}")
                    continue
                kf = match_known(known, r["unit"], fail)
                if kf:
                    known_hit.append((kf, fail))
                else:
                    violations.append(fail)
            for u in r["undecided"]:
                if u["fn"] in served_fns or u["fn"] is None:
                    undecided.append(f"{r['unit']}::{u['fn']}: {u['msg']}")
            if r["vacuity"]["vacuous"]:
                undecided.append(f"{r['unit']}: vacuity probe(s) verified (contradictory precondition / invariant / shim): {r['vacuity']['vacuous']}")
            for p in info["preludes"]:
                trusted.add(f"prelude/{p} (assumed contracts)")
            rewrites += [w for w in info["rewrites"]]
            assumptions += info["assumptions"]
            backends.setdefault("verus-z3", {"smt_ms": 0, "wall_s": 0.0, "cmds": []})
            backends["verus-z3"]["smt_ms"] += r["smt_ms"]
            backends["verus-z3"]["wall_s"] += round(r["wall"], 2)
            backends["verus-z3"]["cmds"].append(f"(cd build/{r['unit']} && {r['verus_cmd']})")
            for c in info["clauses"]:
                if serves(labels_of(c["label"]), pid) and len(samples) < 3 and c["kind"] == "ensures":
                    samples.append({"unit": r["unit"], "fn": c["fn"], "clause": c["kind"], "label": c["label"], "text": c["text"]})
        else:
            obligations += r.get("obligations", 0)
            discharged += r.get("discharged", 0)
            for fail in r.get("failures", []):
                kf = match_known(known, r.get("unit", kind), fail)
                if kf:
                    known_hit.append((kf, fail))
                else:
                    violations.append(fail)
            undecided += r.get("undecided", [])
            for t in r.get("trusted", []):
                trusted.add(t)
            if r.get("backend"):
                backends[r["backend"]["name"]] = r["backend"]
            fn_rows += r.get("functions", [])
            samples += r.get("samples", [])[:2]

    wall = time.time() - t0
    # known findings that are listed but did not show up: say so (still exit 0)
    for k in known:
        if not any(kf is k for kf, _ in known_hit):
            if k.get("engine", "verus") in [c[0] for c in comps]:
                notes.append(f"known finding {k.get('id')} did not reproduce in this run (repaired? move it to fixed by hand)")
    rc = 0
    out_lines = []
    seen_kf = set()
    for kf, fail in known_hit:
        key = (kf.get("id"), kf.get("label"), kf.get("unit"))
        if key in seen_kf:
            continue
        seen_kf.add(key)
        out_lines.append(f"KNOWN-FINDING: property={pid} {kf.get('id')} {kf.get('what')}")
    replay_paths = []
    if violations:
        os.makedirs(os.path.join(ROOT, "replay"), exist_ok=True)
        for v in violations:
            name = re.sub(r"[^A-Za-z0-9_.-]+", "_", f"{pid}-{v.get('unit','')}-{v.get('fn')}-{v.get('kind')}-{v.get('labels') or v.get('name','')}")[:150]
            path = os.path.join(ROOT, "replay", name + ".json")
            witness = v.get("witness")
            if witness is None and v.get("unit") and not v.get("engine"):
                import replaymod
                witness = replaymod.search_witness(pid, v, tier)
            json.dump({"property": pid, "obligation": f"{v.get('unit','')}::{v.get('fn')}::{v.get('kind')}[{v.get('labels','')}]",
                       "sidecar_line": v.get("sidecar_line"), "verifier_message": v.get("msg"), "verifier_output": v.get("rendered"),
                       "generated_line": v.get("line"), "generated_text": v.get("text"), "witness": witness,
                       "how_to_replay": f"./check {pid} --replay {path}"}, open(path, "w"), indent=1)
            if path in replay_paths:
                continue
            replay_paths.append(path)
            out_lines.append(f"VIOLATION property={pid} replay={path}" + ("" if witness else " no-failing-input-found"))
        rc = 1
    elif undecided:
        rc = 2
    write_evidence(pid, tier, seed, cfg, comps, violations, undecided, notes, wall, obligations=obligations, discharged=discharged,
                   fn_rows=fn_rows, trusted=sorted(trusted), rewrites=rewrites, assumptions=assumptions, samples=samples,
                   backends=backends, known_hit=known_hit)
    for n in notes:
        print("note:", n)
    for u in undecided:
        print(f"UNDECIDED property={pid}: {u}")
    for l in out_lines:
        print(l)
    print(f"check {pid} [{tier}]: obligations={obligations} discharged={discharged} violations={len(violations)} undecided={len(undecided)} "
          f"known-findings={len(known_hit)} wall={wall:.1f}s -> exit {rc}")
    return rc


def match_known(known, unit, fail):
    for k in known:
        if k.get("unit") not in (None, unit):
            continue
        if k.get("fn") and k["fn"] != fail.get("fn"):
            continue
        if k.get("label") and k["label"] not in labels_of(fail.get("labels")) and k["label"] != fail.get("name"):
            continue
        if k.get("kind") and k["kind"] != fail.get("kind"):
            continue
        if k.get("witness_key") and k["witness_key"] != fail.get("witness_key"):
            continue
        if k.get("msg_contains") and k["msg_contains"] not in (fail.get("msg") or ""):
            continue
        return k
    return None


def write_evidence(pid, tier, seed, cfg, comps, violations, undecided, notes, wall, obligations=0, discharged=0, fn_rows=(), trusted=(),
                   rewrites=(), assumptions=(), samples=(), backends=None, known_hit=(), undecided_reason=None):
    level = cfg.get("level", "other")
    cov = {
        "obligations": obligations, "discharged": discharged,
        "checker_cmd": "; ".join(c for b in (backends or {}).values() for c in b.get("cmds", []))[:4000] or f"./check {pid} --tier {tier}",
        "trusted_base": list(trusted) + cfg.get("trusted_extra", []),
        "explanation": cfg.get("explanation", ""),
        "functions_under_contract": list(fn_rows),
        "backends": backends or {},
        "samples": list(samples)[:6] or [{"note": "no labelled clause sample for this property in this run"}],
        "extraction_rewrites": summarize_rewrites(rewrites),
        "assumption_scan": summarize_assumptions(assumptions),
        "vacuity": [{"unit": r["unit"], **{k: v for k, v in r["vacuity"].items()}} for kind, r in comps if kind == "verus"],
        "bounded": [r.get("bounded") for kind, r in comps if kind != "verus" and r.get("bounded")],
        "known_findings": [{"id": k.get("id"), "what": k.get("what"), "obligation": f"{f.get('unit')}::{f.get('fn')}::{f.get('kind')}[{f.get('labels')}]"} for k, f in known_hit],
        "undecided": list(undecided),
        "notes": list(notes),
    }
    if level != "proof":
        # keys required by the generic fallback are not needed when 'explanation' is present
        pass
    ev = {"property_id": pid, "tier": tier, "seed": seed, "level": level, "coverage": cov,
          "assumptions": cfg.get("assumptions", []) + [f"{a['origin']}:{a['line']} {a['kind']}" for a in list(assumptions)[:0]],
          "wall_s": round(wall, 2), "violations": len(violations)}
    evdir = os.environ.get("VERIF_EVIDENCE_DIR") or os.path.join(ROOT, "evidence")
    os.makedirs(evdir, exist_ok=True)
    json.dump(ev, open(os.path.join(evdir, pid + ".json"), "w"), indent=1)


def summarize_rewrites(rw):
    by = {}
    for w in rw:
        by.setdefault(w["rule"], []).append(f"{w['fn']}: {w['from'][:90]} => {w['to'][:90]}")
    return {k: {"sites": len(v), "examples": v[:3]} for k, v in sorted(by.items())}


def summarize_assumptions(asm):
    by = {}
    for a in asm:
        by.setdefault(a["origin"], {}).setdefault(a["kind"], 0)
        by[a["origin"]][a["kind"]] += 1
    return by
