mod util;
mod rawdb_suite;
mod vec_suite;
mod import_suite;
mod lazy_suite;
mod eager_suite;
mod fault_suite;
mod cached_suite;

use util::*;

fn arg<T: std::str::FromStr>(args: &[String], name: &str, default: T) -> T {
    args.iter().position(|a| a == name).and_then(|i| args.get(i + 1)).and_then(|v| v.parse().ok()).unwrap_or(default)
}

fn main() {
    let args: Vec<String> = std::env::args().collect();
    if args.len() < 2 {
        eprintln!("usage: rac <suite> [--depth N] [--random-secs S] [--random-depth D] [--seed X] [--thorough] | rac replay <suite> <op; op; ...>");
        std::process::exit(2);
    }
    // keep panics of the code under test quiet: they are caught and reported as contract failures
    if std::env::var("RAC_SHOW_PANICS").is_err() { std::panic::set_hook(Box::new(|_| {})); }
    else if std::env::var("RAC_SHOW_PANICS").as_deref() == Ok("brief") { std::panic::set_hook(Box::new(|i| { let m = i.to_string(); if !m.contains("capacity overflow") { eprintln!("PANIC: {m}"); } })); }
    let threads = arg(&args, "--threads", 16usize);
    let seed = arg(&args, "--seed", 0u64);
    let thorough = args.iter().any(|a| a == "--thorough");
    match args[1].as_str() {
        "rawdb" => {
            let rep = rawdb_suite::run(arg(&args, "--depth", 3usize), arg(&args, "--random-secs", 5u64), arg(&args, "--random-depth", 12usize), seed, thorough, threads);
            println!("{}", rep.to_json());
        }
        "fault" => { println!("{}", fault_suite::run().to_json()); }
        "eager" => { println!("{}", eager_suite::run(arg(&args, "--depth", 3usize), threads).to_json()); }
        "cached" => { println!("{}", cached_suite::run(arg(&args, "--depth", 4usize)).to_json()); }
        "lazy" => { println!("{}", lazy_suite::run(arg(&args, "--maxn", 4usize)).to_json()); }
        "import" => { println!("{}", import_suite::run().to_json()); }
        "vecreads" => {
            unsafe { std::env::set_var("RAC_READS", "1"); }
            let fmt: String = arg(&args, "--format", "bytes".to_string());
            let rep = vec_suite::run(&fmt, arg(&args, "--depth", 3usize), arg(&args, "--random-secs", 5u64), arg(&args, "--random-depth", 10usize), seed, thorough, threads);
            println!("{}", rep.to_json());
        }
        "vecchain" => {
            unsafe { std::env::set_var("RAC_CHAIN_ALPHABET", "1"); }
            let fmt: String = arg(&args, "--format", "bytes".to_string());
            let rep = vec_suite::run(&fmt, arg(&args, "--depth", 4usize), arg(&args, "--random-secs", 5u64), arg(&args, "--random-depth", 16usize), seed, thorough, threads);
            println!("{}", rep.to_json());
        }
        "vecpages" => {
            unsafe { std::env::set_var("RAC_PAGE_ALPHABET", "1"); }
            let fmt: String = arg(&args, "--format", "pco".to_string());
            let rep = vec_suite::run(&fmt, arg(&args, "--depth", 3usize), arg(&args, "--random-secs", 5u64), arg(&args, "--random-depth", 10usize), seed, thorough, threads);
            println!("{}", rep.to_json());
        }
        "vec" => {
            let fmt: String = arg(&args, "--format", "bytes".to_string());
            let rep = vec_suite::run(&fmt, arg(&args, "--depth", 3usize), arg(&args, "--random-secs", 5u64), arg(&args, "--random-depth", 12usize), seed, thorough, threads);
            println!("{}", rep.to_json());
        }
        "replay" => {
            let suite = args[2].as_str();
            let hist: Vec<String> = args[3].split(';').map(|s| s.trim().to_string()).filter(|s| !s.is_empty()).collect();
            let r = match suite {
                "rawdb" => rawdb_suite::replay(std::path::Path::new("."), &hist),
                s if s.starts_with("vec:") => vec_suite::replay(&s[4..], &hist),
                "cached" => {
                    let ops: Option<Vec<cached_suite::Op>> = hist.iter().map(|h| cached_suite::parse(h)).collect();
                    match ops { None => { eprintln!("bad history"); std::process::exit(2); }
                        Some(o) => cached_suite::run_history(&o).map(|_| ()).map_err(|(c, d)| Failure { clause: c, detail: d, history: hist.clone() }) }
                }
                _ => { eprintln!("unknown suite"); std::process::exit(2); }
            };
            match r {
                Ok(()) => { println!("{{\"replay\":\"ok\",\"failure\":null}}"); }
                Err(f) => { println!("{{\"replay\":\"fails\",\"failure\":{{\"clause\":{},\"detail\":{},\"history\":[{}]}}}}", jstr(&f.clause), jstr(&f.detail), f.history.iter().map(|h| jstr(h)).collect::<Vec<_>>().join(",")); std::process::exit(1); }
            }
        }
        other => { eprintln!("unknown suite {other}"); std::process::exit(2); }
    }
}
