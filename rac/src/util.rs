//! helpers: scratch directories, tiny JSON output, deterministic RNG
use std::path::PathBuf;
use std::sync::atomic::{AtomicU64, Ordering};

static CTR: AtomicU64 = AtomicU64::new(0);

pub fn scratch_dir(tag: &str) -> PathBuf {
    let base = if std::path::Path::new("/dev/shm").is_dir() { "/dev/shm" } else { "/tmp" };
    let n = CTR.fetch_add(1, Ordering::Relaxed);
    let p = PathBuf::from(format!("{}/verif-rac-{}-{}-{}", base, std::process::id(), tag, n));
    let _ = std::fs::remove_dir_all(&p);
    std::fs::create_dir_all(&p).unwrap();
    p
}

pub fn rm(p: &std::path::Path) {
    let _ = std::fs::remove_dir_all(p);
}

pub struct Rng(pub u64);
impl Rng {
    pub fn next(&mut self) -> u64 {
        // splitmix64
        self.0 = self.0.wrapping_add(0x9E3779B97F4A7C15);
        let mut z = self.0;
        z = (z ^ (z >> 30)).wrapping_mul(0xBF58476D1CE4E5B9);
        z = (z ^ (z >> 27)).wrapping_mul(0x94D049BB133111EB);
        z ^ (z >> 31)
    }
    pub fn below(&mut self, n: usize) -> usize {
        (self.next() % n as u64) as usize
    }
}

pub fn jstr(s: &str) -> String {
    let mut o = String::from("\"");
    for c in s.chars() {
        match c {
            '"' => o.push_str("\\\""),
            '\\' => o.push_str("\\\\"),
            '\n' => o.push_str("\\n"),
            c if (c as u32) < 0x20 => o.push_str(&format!("\\u{:04x}", c as u32)),
            c => o.push(c),
        }
    }
    o.push('"');
    o
}

/// One violated runtime contract.
#[derive(Clone, Debug)]
pub struct Failure {
    pub clause: String,   // e.g. "C01.write"
    pub detail: String,
    pub history: Vec<String>,
}

#[derive(Default)]
pub struct Report {
    pub suite: String,
    pub evaluations: u64,        // histories executed
    pub steps: u64,              // operations executed (contract evaluations)
    pub distinct: std::collections::HashSet<u64>,  // hashes of distinct non-trivial abstract states reached
    pub failures: Vec<Failure>,
    pub bound: String,
    pub exhaustive: bool,
    pub samples: Vec<String>,
}

impl Report {
    pub fn to_json(&self) -> String {
        let mut s = String::from("{");
        s.push_str(&format!("\"suite\":{},", jstr(&self.suite)));
        s.push_str(&format!("\"evaluations\":{},\"steps\":{},\"distinct_nontrivial\":{},", self.evaluations, self.steps, self.distinct.len()));
        s.push_str(&format!("\"bound\":{},\"exhaustive\":{},", jstr(&self.bound), self.exhaustive));
        s.push_str("\"samples\":[");
        s.push_str(&self.samples.iter().take(4).map(|x| jstr(x)).collect::<Vec<_>>().join(","));
        s.push_str("],\"failures\":[");
        let mut first = true;
        for f in self.failures.iter().take(40) {
            if !first { s.push(','); }
            first = false;
            s.push_str(&format!("{{\"clause\":{},\"detail\":{},\"history\":[{}]}}", jstr(&f.clause), jstr(&f.detail),
                f.history.iter().map(|h| jstr(h)).collect::<Vec<_>>().join(",")));
        }
        s.push_str("]}");
        s
    }
}

pub fn hash_of<T: std::hash::Hash>(t: &T) -> u64 {
    use std::hash::Hasher;
    let mut h = std::collections::hash_map::DefaultHasher::new();
    t.hash(&mut h);
    h.finish()
}
