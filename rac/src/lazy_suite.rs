//! C15: lazy vectors equal their defining formula through every read path (exhaustive small scope on the real types).
use crate::util::*;
use rawdb::Database;
use std::fmt::Debug;
use std::sync::Arc;
use vecdb::{AnyStoredVec, AnyVec, BytesVec, DeltaSub, ImportableVec, LazyAggVec, LazyDeltaVec, LazyVecFrom1, LazyVecFrom2, LazyVecFrom3, ReadableCloneableVec, ReadableVec, Version, WritableVec};

fn src(db: &Database, name: &str, vals: &[u32]) -> BytesVec<usize, u32> {
    let mut v = BytesVec::<usize, u32>::forced_import_with((db, name, Version::TWO).into()).unwrap();
    for x in vals { v.push(*x); }
    v.write().unwrap();
    v
}

/// every read path of `v` against the expected dense contents
pub fn check_dense_reads<V: ReadableVec<usize, T>, T: PartialEq + Debug + Clone + Send + Sync + 'static>(what: &str, v: &V, exp: &[T]) -> Result<(), (String, String)> {
    let len = exp.len();
    let pre = |c: &str| format!("C15.{c}");
    if v.len() != len { return Err((pre("len"), format!("{what}: len() = {}, formula gives {len}", v.len()))); }
    for from in 0..=len + 1 { for to in 0..=len + 1 {
        let e: Vec<T> = if from.min(len) >= to.min(len) { vec![] } else { exp[from.min(len)..to.min(len)].to_vec() };
        let a = v.collect_range_at(from, to);
        if a != e { return Err((pre("range"), format!("{what}: collect_range_at({from},{to}) = {a:?}, formula gives {e:?}"))); }
        let b = v.fold_range_at(from, to, vec![], |mut acc: Vec<T>, x| { acc.push(x); acc });
        if b != e { return Err((pre("range"), format!("{what}: fold_range_at({from},{to}) = {b:?}, formula gives {e:?}"))); }
        let c: Result<Vec<T>, ()> = v.try_fold_range_at(from, to, vec![], |mut acc: Vec<T>, x| { acc.push(x); Ok(acc) });
        if c.as_ref().ok() != Some(&e) { return Err((pre("range"), format!("{what}: try_fold_range_at({from},{to}) = {c:?}, formula gives {e:?}"))); }
        let mut d = vec![]; v.for_each_range_dyn_at(from, to, &mut |x| d.push(x));
        if d != e { return Err((pre("range"), format!("{what}: for_each_range_dyn_at({from},{to}) = {d:?}, formula gives {e:?}"))); }
        let mut r = vec![]; v.read_into_at(from, to, &mut r);
        if r != e { return Err((pre("range"), format!("{what}: read_into_at({from},{to}) = {r:?}, formula gives {e:?}"))); }
        let g = v.collect_range_dyn(from, to);
        if g != e { return Err((pre("range"), format!("{what}: collect_range_dyn({from},{to}) = {g:?}, formula gives {e:?}"))); }
    }}
    for i in 0..=len + 1 {
        let e = exp.get(i).cloned();
        let a = v.collect_one_at(i);
        if a != e { return Err((pre("point"), format!("{what}: collect_one_at({i}) = {a:?}, formula gives {e:?}"))); }
    }
    // sorted reads: all ascending lists of length <= 3 over 0..=len (duplicates included)
    let mut lists: Vec<Vec<usize>> = vec![vec![]];
    for i in 0..=len { lists.push(vec![i]); for j in i..=len { lists.push(vec![i, j]); for k in j..=len { lists.push(vec![i, j, k]); } } }
    for idx in lists {
        let e: Vec<T> = idx.iter().filter_map(|&k| exp.get(k).cloned()).collect();
        let a = v.read_sorted_at(&idx);
        if a != e { return Err((pre("sorted"), format!("{what}: read_sorted_at({idx:?}) = {a:?}, formula gives {e:?}"))); }
    }
    Ok(())
}

fn guarded(rep: &mut Report, hist: Vec<String>, f: impl FnOnce() -> Result<(), (String, String)> + std::panic::UnwindSafe) {
    rep.evaluations += 1;
    match std::panic::catch_unwind(f) {
        Ok(Ok(())) => { rep.steps += 1; rep.distinct.insert(hash_of(&hist)); if rep.samples.len() < 3 { rep.samples.push(hist.join("; ")); } }
        Ok(Err((c, d))) => { if rep.failures.len() < 60 { rep.failures.push(Failure { clause: c, detail: d, history: hist }); } }
        Err(p) => {
            let msg = p.downcast_ref::<String>().cloned().or_else(|| p.downcast_ref::<&str>().map(|s| s.to_string())).unwrap_or_default();
            if rep.failures.len() < 60 { rep.failures.push(Failure { clause: "C15.nopanic".into(), detail: format!("panic: {msg}"), history: hist }); }
        }
    }
}

/// all monotone (non-decreasing) sequences of length m with values in 0..=maxv, optionally bounded by value <= index + slack
fn monotone(m: usize, maxv: usize, out: &mut Vec<Vec<usize>>, cur: &mut Vec<usize>, bound: Option<usize>) {
    if cur.len() == m { out.push(cur.clone()); return; }
    let lo = cur.last().copied().unwrap_or(0);
    let hi = match bound { Some(sl) => maxv.min(cur.len() + sl), None => maxv };
    for v in lo..=hi { cur.push(v); monotone(m, maxv, out, cur, bound); cur.pop(); }
}

pub fn run(maxn: usize) -> Report {
    let mut rep = Report { suite: "lazy".into(), exhaustive: true, ..Default::default() };
    rep.bound = format!("exhaustive: sources of length 0..={maxn} with pairwise distinct values; LazyVecFrom1/2/3 over all length combinations (incl. a source grown after construction); LazyDeltaVec<DeltaSub> over all monotone window starts with start <= index of length 0..={} ; LazyAggVec<Sparse> over all monotone first-index mappings of length 0..={} with values 0..=source length; every read path, all (from,to) in [0,len+1]^2, all ascending index lists of length <= 3", maxn + 1, maxn + 1);
    let path = scratch_dir("lazy");
    let db = Database::open(&path).unwrap();
    let vals: Vec<u32> = (0..maxn as u32 + 2).map(|i| 1000 + 37 * i * i + i).collect();
    let mut counter = 0usize;
    let mut name = || { counter += 1; format!("s{counter}") };
    // ---- From1 / growth
    for n in 0..=maxn {
        let mut s = src(&db, &name(), &vals[..n]);
        let lazy: LazyVecFrom1<usize, u32, usize, u32> = LazyVecFrom1::init("l1", Version::ONE, s.read_only_boxed_clone(), |i, v| v.wrapping_mul(3).wrapping_add(i as u32));
        let exp: Vec<u32> = (0..n).map(|i| vals[i].wrapping_mul(3).wrapping_add(i as u32)).collect();
        guarded(&mut rep, vec![format!("from1 source_len={n}")], std::panic::AssertUnwindSafe(|| check_dense_reads("LazyVecFrom1", &lazy, &exp)));
        // grow the source after construction
        s.push(vals[n]); s.write().unwrap();
        let exp2: Vec<u32> = (0..=n).map(|i| vals[i].wrapping_mul(3).wrapping_add(i as u32)).collect();
        guarded(&mut rep, vec![format!("from1 source_len={n} then source grows by 1")], std::panic::AssertUnwindSafe(|| check_dense_reads("LazyVecFrom1 (grown source)", &lazy, &exp2)));
        let _ = s.remove();
    }
    // ---- From2 / From3: unequal lengths
    for n1 in 0..=maxn.min(4) { for n2 in 0..=maxn.min(4) {
        let s1 = src(&db, &name(), &vals[..n1]);
        let s2 = src(&db, &name(), &vals[1..1 + n2]);
        let lazy: LazyVecFrom2<usize, u32, usize, u32, usize, u32> = LazyVecFrom2::init("l2", Version::ONE, s1.read_only_boxed_clone(), s2.read_only_boxed_clone(), |i, a, b| a.wrapping_mul(7).wrapping_add(b).wrapping_add(i as u32));
        let n = n1.min(n2);
        let exp: Vec<u32> = (0..n).map(|i| vals[i].wrapping_mul(7).wrapping_add(vals[1 + i]).wrapping_add(i as u32)).collect();
        guarded(&mut rep, vec![format!("from2 source_lens=({n1},{n2})")], std::panic::AssertUnwindSafe(|| check_dense_reads("LazyVecFrom2", &lazy, &exp)));
        for n3 in [0usize, n.saturating_sub(1), n, n + 1] {
            if n3 > maxn { continue; }
            let s3 = src(&db, &name(), &vals[2..2 + n3]);
            let lazy3: LazyVecFrom3<usize, u32, usize, u32, usize, u32, usize, u32> = LazyVecFrom3::init("l3", Version::ONE, s1.read_only_boxed_clone(), s2.read_only_boxed_clone(), s3.read_only_boxed_clone(), |i, a, b, c| a.wrapping_mul(7).wrapping_add(b.wrapping_mul(3)).wrapping_add(c).wrapping_add(i as u32));
            let m = n.min(n3);
            let exp3: Vec<u32> = (0..m).map(|i| vals[i].wrapping_mul(7).wrapping_add(vals[1 + i].wrapping_mul(3)).wrapping_add(vals[2 + i]).wrapping_add(i as u32)).collect();
            guarded(&mut rep, vec![format!("from3 source_lens=({n1},{n2},{n3})")], std::panic::AssertUnwindSafe(|| check_dense_reads("LazyVecFrom3", &lazy3, &exp3)));
            let _ = s3.remove();
        }
        let _ = s1.remove(); let _ = s2.remove();
    }}
    // ---- Delta (DeltaSub): out[i] = src[i] - (start > 0 ? src[start-1] : 0), saturating at 0; len = min(source, starts)
    for n in 0..=maxn {
        let s = src(&db, &name(), &vals[..n]);
        for m in 0..=n + 1 {
            let mut all = vec![]; monotone(m, n + 1, &mut all, &mut vec![], Some(0));
            for starts in all {
                let st: Arc<[usize]> = Arc::from(starts.clone().into_boxed_slice());
                let st2 = st.clone();
                let lazy: LazyDeltaVec<usize, u32, u32, DeltaSub> = LazyDeltaVec::new("d", Version::ONE, s.read_only_boxed_clone(), Version::ONE, move || st2.clone());
                let len = n.min(m);
                let exp: Vec<u32> = (0..len).map(|i| { let a = if starts[i] > 0 { vals[starts[i] - 1] } else { 0 }; vals[i].checked_sub(a).unwrap_or(0) }).collect();
                // AnyVec::len of the delta vector is the source length; reads are limited by the shorter of source and mapping
                guarded(&mut rep, vec![format!("delta source_len={n} window_starts={starts:?}")], std::panic::AssertUnwindSafe(|| check_delta(&lazy, &exp, n)));
            }
        }
        let _ = s.remove();
    }
    // ---- Agg (Sparse): out[i] = last element of source[first[i] .. first[i+1] (or source end)), None when that group is empty
    for n in 0..=maxn.min(4) {
        let s = src(&db, &name(), &vals[..n]);
        for m in 0..=n + 1 {
            let mut all = vec![]; monotone(m, n, &mut all, &mut vec![], None);
            for mapping in all {
                let mp: Arc<[usize]> = Arc::from(mapping.clone().into_boxed_slice());
                let mp2 = mp.clone();
                let lazy: LazyAggVec<usize, Option<u32>, usize, usize, u32> = LazyAggVec::new("a", Version::ONE, Version::ONE, s.read_only_boxed_clone(), move || mp2.clone());
                let exp: Vec<Option<u32>> = (0..m).map(|i| { let cur = mapping[i]; let next = mapping.get(i + 1).copied().unwrap_or(n); if next == 0 || cur >= next { None } else { Some(vals[next - 1]) } }).collect();
                guarded(&mut rep, vec![format!("agg source_len={n} first_index={mapping:?}")], std::panic::AssertUnwindSafe(|| check_dense_reads("LazyAggVec<Sparse>", &lazy, &exp)));
            }
        }
        let _ = s.remove();
    }
    drop(db);
    rm(&path);
    rep
}

/// LazyDeltaVec reports the source length as len(); every read is additionally limited by the window mapping.
fn check_delta(v: &LazyDeltaVec<usize, u32, u32, DeltaSub>, exp: &[u32], source_len: usize) -> Result<(), (String, String)> {
    if v.len() != source_len { return Err(("C15.len".into(), format!("LazyDeltaVec: len() = {}, source has {source_len}", v.len()))); }
    struct View<'a>(&'a LazyDeltaVec<usize, u32, u32, DeltaSub>, usize);
    // reuse the generic checker through a thin adapter that reports the readable length
    let len = exp.len();
    for from in 0..=source_len + 1 { for to in 0..=source_len + 1 {
        let e: Vec<u32> = if from.min(len) >= to.min(len) { vec![] } else { exp[from.min(len)..to.min(len)].to_vec() };
        let a = v.collect_range_at(from, to);
        if a != e { return Err(("C15.range".into(), format!("LazyDeltaVec: collect_range_at({from},{to}) = {a:?}, formula gives {e:?}"))); }
        let b = v.fold_range_at(from, to, vec![], |mut acc: Vec<u32>, x| { acc.push(x); acc });
        if b != e { return Err(("C15.range".into(), format!("LazyDeltaVec: fold_range_at({from},{to}) = {b:?}, formula gives {e:?}"))); }
        let mut d = vec![]; v.for_each_range_dyn_at(from, to, &mut |x| d.push(x));
        if d != e { return Err(("C15.range".into(), format!("LazyDeltaVec: for_each_range_dyn_at({from},{to}) = {d:?}, formula gives {e:?}"))); }
        let mut r = vec![]; v.read_into_at(from, to, &mut r);
        if r != e { return Err(("C15.range".into(), format!("LazyDeltaVec: read_into_at({from},{to}) = {r:?}, formula gives {e:?}"))); }
        let c: Result<Vec<u32>, ()> = v.try_fold_range_at(from, to, vec![], |mut acc: Vec<u32>, x| { acc.push(x); Ok(acc) });
        if c.as_ref().ok() != Some(&e) { return Err(("C15.range".into(), format!("LazyDeltaVec: try_fold_range_at({from},{to}) = {c:?}, formula gives {e:?}"))); }
    }}
    for i in 0..=source_len + 1 {
        let e = exp.get(i).copied();
        let a = v.collect_one_at(i);
        if a != e { return Err(("C15.point".into(), format!("LazyDeltaVec: collect_one_at({i}) = {a:?}, formula gives {e:?}"))); }
    }
    let mut lists: Vec<Vec<usize>> = vec![vec![]];
    for i in 0..=source_len { lists.push(vec![i]); for j in i..=source_len { lists.push(vec![i, j]); for k in j..=source_len { lists.push(vec![i, j, k]); } } }
    for idx in lists {
        let e: Vec<u32> = idx.iter().filter_map(|&k| exp.get(k).copied()).collect();
        let a = v.read_sorted_at(&idx);
        if a != e { return Err(("C15.sorted".into(), format!("LazyDeltaVec: read_sorted_at({idx:?}) = {a:?}, formula gives {e:?}"))); }
    }
    let _ = View(v, 0).1;
    Ok(())
}
