//! C14: import keeps matching data, refuses or (forced) discards only on a real version/format mismatch.
//! Exhaustive matrix over (format, version, entry point) used to create x used to re-open.
use crate::util::*;
use rawdb::Database;
use vecdb::{AnyStoredVec, BytesVec, ImportOptions, ImportableVec, LZ4Vec, PcoVec, ReadableVec, Version, WritableVec, ZeroCopyVec, ZstdVec, Error};

#[derive(Clone, Copy, Debug, PartialEq, Eq, Hash)]
pub enum Fmt { Bytes, ZeroCopy, Pco, Lz4, Zstd }
const FMTS: [Fmt; 5] = [Fmt::Bytes, Fmt::ZeroCopy, Fmt::Pco, Fmt::Lz4, Fmt::Zstd];

enum AnyV { B(BytesVec<usize, u32>), Z(ZeroCopyVec<usize, u32>), P(PcoVec<usize, u32>), L(LZ4Vec<usize, u32>), S(ZstdVec<usize, u32>) }

fn open(db: &Database, f: Fmt, ver: u32, forced: bool) -> vecdb::Result<AnyV> {
    let o: ImportOptions = (db, "v", Version::new(ver)).into();
    macro_rules! imp { ($t:ty, $c:path) => { if forced { <$t>::forced_import_with(o).map($c) } else { <$t>::import_with(o).map($c) } } }
    match f {
        Fmt::Bytes => imp!(BytesVec<usize, u32>, AnyV::B),
        Fmt::ZeroCopy => imp!(ZeroCopyVec<usize, u32>, AnyV::Z),
        Fmt::Pco => imp!(PcoVec<usize, u32>, AnyV::P),
        Fmt::Lz4 => imp!(LZ4Vec<usize, u32>, AnyV::L),
        Fmt::Zstd => imp!(ZstdVec<usize, u32>, AnyV::S),
    }
}
impl AnyV {
    fn push_flush(&mut self, vals: &[u32], holes: bool) -> vecdb::Result<()> {
        macro_rules! go { ($v:expr) => {{ for x in vals { $v.push(*x); } $v.flush() }} }
        match self {
            AnyV::B(v) => { for x in vals { v.push(*x); } if holes && vals.len() > 1 { v.delete_at(1); } v.flush() }
            AnyV::Z(v) => { for x in vals { v.push(*x); } if holes && vals.len() > 1 { v.delete_at(1); } v.flush() }
            AnyV::P(v) => go!(v), AnyV::L(v) => go!(v), AnyV::S(v) => go!(v),
        }
    }
    fn collect(&self) -> Vec<u32> {
        match self { AnyV::B(v) => v.collect(), AnyV::Z(v) => v.collect(), AnyV::P(v) => v.collect(), AnyV::L(v) => v.collect(), AnyV::S(v) => v.collect() }
    }
}

fn is_mismatch_err(e: &Error) -> bool {
    matches!(e, Error::DifferentVersion { .. } | Error::DifferentFormat { .. } | Error::WrongLength { .. } | Error::WrongEndian | Error::InvalidFormat(_))
}

pub fn run() -> Report {
    let mut rep = Report { suite: "import".into(), exhaustive: true, ..Default::default() };
    rep.bound = "exhaustive matrix: 5 formats x versions {1,2} x entry point {import, forced_import} used to create, times the same used to re-open, times contents {empty, 5 values, 5 values with a deleted slot on raw formats} = 5*2*2 * 5*2*2 * 3 cases; after a refused import the original arguments must still return the data".into();
    for &cf in &FMTS { for cv in [1u32, 2] { for cforced in [false, true] {
        for &of in &FMTS { for ov in [1u32, 2] { for oforced in [false, true] {
            for content in 0..3 {
                rep.evaluations += 1;
                let hist = vec![format!("create {:?} v{} {} content#{}", cf, cv, if cforced { "forced_import" } else { "import" }, content),
                                format!("reopen {:?} v{} {}", of, ov, if oforced { "forced_import" } else { "import" })];
                let r = std::panic::catch_unwind(|| one(cf, cv, cforced, of, ov, oforced, content));
                match r {
                    Err(_) => rep.failures.push(Failure { clause: "C14.nopanic".into(), detail: "panic".into(), history: hist }),
                    Ok(Err((c, d))) => { if rep.failures.len() < 60 { rep.failures.push(Failure { clause: c, detail: d, history: hist }); } }
                    Ok(Ok(h)) => { rep.steps += 2; rep.distinct.insert(h); if rep.samples.len() < 3 { rep.samples.push(hist.join("; ")); } }
                }
            }
        }}}
    }}}
    rep
}

fn one(cf: Fmt, cv: u32, cforced: bool, of: Fmt, ov: u32, oforced: bool, content: usize) -> Result<u64, (String, String)> {
    let path = scratch_dir("imp");
    let res = (|| {
        let db = Database::open(&path).map_err(|e| ("C14.setup".to_string(), e.to_string()))?;
        let vals: Vec<u32> = if content == 0 { vec![] } else { vec![11, 22, 33, 44, 55] };
        let holes = content == 2;
        let expect: Vec<u32> = if holes && matches!(cf, Fmt::Bytes | Fmt::ZeroCopy) { vec![11, 33, 44, 55] } else { vals.clone() };
        {
            let mut v = open(&db, cf, cv, cforced).map_err(|e| ("C14.create".to_string(), format!("creating failed: {e}")))?;
            v.push_flush(&vals, holes).map_err(|e| ("C14.create".to_string(), format!("flush failed: {e}")))?;
        }
        db.flush().map_err(|e| ("C14.setup".to_string(), e.to_string()))?;
        let same = cf == of && cv == ov;
        let r = open(&db, of, ov, oforced);
        let mixed_entry = cforced != oforced;
        match (same, oforced, r) {
            (true, _, Ok(v)) => {
                let got = v.collect();
                if got != expect {
                    let clause = if mixed_entry { "C14.force-mixed-entry" } else { "C14.keep" };
                    return Err((clause.into(), format!("matching version and format, but re-import returned {:?} instead of {:?}", got, expect)));
                }
            }
            (true, _, Err(e)) => {
                let clause = if mixed_entry { "C14.force-mixed-entry" } else { "C14.keep" };
                return Err((clause.into(), format!("matching version and format, but re-import failed: {e}")));
            }
            (false, false, Ok(v)) => return Err((if mixed_entry { "C14.force-mixed-entry" } else { "C14.refuse" }.into(), format!("plain import with a different version/format succeeded (len {})", v.collect().len()))),
            (false, false, Err(e)) => {
                if !is_mismatch_err(&e) { return Err(("C14.refuse".into(), format!("plain import with a different version/format failed with an unrelated error: {e}"))); }
                // data untouched: the original arguments still return it
                let v = open(&db, cf, cv, cforced).map_err(|e| ("C14.refuse-noeffect".to_string(), format!("after a refused import the original import fails: {e}")))?;
                if v.collect() != expect { return Err(("C14.refuse-noeffect".into(), format!("after a refused import the data changed: {:?}", v.collect()))); }
            }
            (false, true, Ok(mut v)) => {
                if !v.collect().is_empty() { return Err((if mixed_entry { "C14.force-mixed-entry" } else { "C14.force" }.into(), format!("forced import on a mismatch returned {:?}, expected an empty vector", v.collect()))); }
                // "empty" means nothing of the discarded vector is left, auxiliary regions included: fresh values read back as pushed
                let fresh = vec![7u32, 8, 9];
                v.push_flush(&fresh, false).map_err(|e| ("C14.force-fresh".to_string(), format!("after a forced reset, pushing and flushing fresh values failed: {e}")))?;
                if v.collect() != fresh { return Err(("C14.force-fresh".into(), format!("after a forced reset, fresh values {:?} read back as {:?}: state of the discarded vector survived", fresh, v.collect()))); }
            }
            (false, true, Err(e)) => return Err(("C14.force".into(), format!("forced import on a mismatch failed: {e}"))),
        }
        Ok(hash_of(&(cf, cv, cforced, of, ov, oforced, content)))
    })();
    rm(&path);
    res
}
