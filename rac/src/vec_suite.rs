//! vecdb stored vectors: executable form of the C03 / C04 / C07 / C08 / C13 / C16 contracts.
//! One reference model (a growable list of optional values + a stack of committed states) for every format.
use crate::util::*;
use rawdb::Database;
use std::collections::BTreeSet;
#[allow(unused_imports)]
use vecdb::{AnyStoredVec, AnyVec, BytesVec, EagerVec, ImportOptions, ImportableVec, LZ4Vec, PcoVec, ReadableVec, Stamp, StoredVec, Version, WritableVec, ZeroCopyVec, ZstdVec};

pub const RETENTION: u16 = 3;

#[derive(Clone, Debug, PartialEq, Eq, Hash)]
pub enum Op {
    Push(usize),            // push k fresh values
    Truncate(Sel),          // truncate_if_needed_at
    Update(Sel),            // raw: update_at
    Delete(Sel),            // raw: delete_at
    FillHole,               // raw: fill_first_hole_or_push
    Take(Sel),              // raw: take_at
    CheckedPushBad,         // checked_push_at(len + 1): must be refused, no effect
    Write,
    Flush,
    Commit,                 // stamped_write_with_changes(stamp + 1)
    Rollback,
    RollbackBefore(u64),    // rollback_before(current stamp - d)
    Reset,
    Reimport,               // drop the vector, import it again (same arguments)
    Reopen,                 // flush everything, close the database, reopen, import
}

#[derive(Clone, Copy, Debug, PartialEq, Eq, Hash)]
pub enum Sel { First, Mid, Last, Len, Past }
impl Sel {
    fn resolve(self, len: usize) -> usize {
        match self { Sel::First => 0, Sel::Mid => len / 2, Sel::Last => len.saturating_sub(1), Sel::Len => len, Sel::Past => len + 1 }
    }
    fn name(self) -> &'static str { match self { Sel::First => "first", Sel::Mid => "mid", Sel::Last => "last", Sel::Len => "len", Sel::Past => "past" } }
    fn parse(s: &str) -> Sel { match s { "first" => Sel::First, "mid" => Sel::Mid, "last" => Sel::Last, "len" => Sel::Len, _ => Sel::Past } }
}

impl std::fmt::Display for Op {
    fn fmt(&self, f: &mut std::fmt::Formatter<'_>) -> std::fmt::Result {
        match self {
            Op::Push(k) => write!(f, "push {k}"),
            Op::Truncate(s) => write!(f, "truncate {}", s.name()),
            Op::Update(s) => write!(f, "update {}", s.name()),
            Op::Delete(s) => write!(f, "delete {}", s.name()),
            Op::FillHole => write!(f, "fill_hole"),
            Op::Take(s) => write!(f, "take {}", s.name()),
            Op::CheckedPushBad => write!(f, "checked_push_bad"),
            Op::Write => write!(f, "write"),
            Op::Flush => write!(f, "flush"),
            Op::Commit => write!(f, "commit"),
            Op::Rollback => write!(f, "rollback"),
            Op::RollbackBefore(d) => write!(f, "rollback_before {d}"),
            Op::Reset => write!(f, "reset"),
            Op::Reimport => write!(f, "reimport"),
            Op::Reopen => write!(f, "reopen"),
        }
    }
}

pub fn parse_op(s: &str) -> Option<Op> {
    let p: Vec<&str> = s.split_whitespace().collect();
    Some(match p.as_slice() {
        ["push", k] => Op::Push(k.parse().ok()?),
        ["truncate", s] => Op::Truncate(Sel::parse(s)),
        ["update", s] => Op::Update(Sel::parse(s)),
        ["delete", s] => Op::Delete(Sel::parse(s)),
        ["fill_hole"] => Op::FillHole,
        ["take", s] => Op::Take(Sel::parse(s)),
        ["checked_push_bad"] => Op::CheckedPushBad,
        ["write"] => Op::Write,
        ["flush"] => Op::Flush,
        ["commit"] => Op::Commit,
        ["rollback"] => Op::Rollback,
        ["rollback_before", d] => Op::RollbackBefore(d.parse().ok()?),
        ["reset"] => Op::Reset,
        ["reimport"] => Op::Reimport,
        ["reopen"] => Op::Reopen,
        _ => return None,
    })
}

/// raw-format extras (update / delete / holes), reached through the wrappers' Deref
pub trait RawOps {
    const RAW: bool;
    fn r_update_at(&mut self, _i: usize, _v: u32) -> vecdb::Result<()> { unreachable!() }
    fn r_delete_at(&mut self, _i: usize) { unreachable!() }
    fn r_fill(&mut self, _v: u32) -> vecdb::Result<usize> { unreachable!() }
    fn r_take_at(&mut self, _i: usize) -> vecdb::Result<Option<u32>> { unreachable!() }
    fn r_collect_holed(&self) -> vecdb::Result<Vec<Option<u32>>> { unreachable!() }
    fn r_reader_try_get(&self, _i: usize) -> Option<u32> { unreachable!() }
    fn r_read_once(&self, _i: usize) -> Option<u32> { unreachable!() }
    fn r_stored_scan(&self, _from: usize, _to: usize, _io: bool) -> Vec<u32> { unreachable!() }
    fn r_has_overlay(&self) -> bool { false }
}
macro_rules! raw_impl {
    ($t:ty) => {
        impl RawOps for $t {
            const RAW: bool = true;
            fn r_update_at(&mut self, i: usize, v: u32) -> vecdb::Result<()> { self.update_at(i, v) }
            fn r_delete_at(&mut self, i: usize) { self.delete_at(i) }
            fn r_fill(&mut self, v: u32) -> vecdb::Result<usize> { self.fill_first_hole_or_push(v) }
            fn r_take_at(&mut self, i: usize) -> vecdb::Result<Option<u32>> { let r = self.create_reader(); self.take_at(i, &r) }
            fn r_collect_holed(&self) -> vecdb::Result<Vec<Option<u32>>> { self.collect_holed() }
            fn r_reader_try_get(&self, i: usize) -> Option<u32> { self.reader().try_get(i) }
            fn r_read_once(&self, i: usize) -> Option<u32> { self.read_at_once(i).ok() }
            fn r_stored_scan(&self, from: usize, to: usize, io: bool) -> Vec<u32> {
                if io { self.fold_stored_io(from, to, vec![], |mut a, x| { a.push(x); a }) } else { self.fold_stored_mmap(from, to, vec![], |mut a, x| { a.push(x); a }) }
            }
            fn r_has_overlay(&self) -> bool { !self.holes().is_empty() || !self.updated().is_empty() }
        }
    };
}
raw_impl!(BytesVec<usize, u32>);
raw_impl!(ZeroCopyVec<usize, u32>);
impl RawOps for PcoVec<usize, u32> { const RAW: bool = false; }
impl RawOps for LZ4Vec<usize, u32> { const RAW: bool = false; }
impl RawOps for ZstdVec<usize, u32> { const RAW: bool = false; }
impl RawOps for EagerVec<PcoVec<usize, u32>> { const RAW: bool = false; }
impl RawOps for EagerVec<BytesVec<usize, u32>> { const RAW: bool = false; }

#[derive(Clone, Debug, PartialEq, Eq, Hash)]
pub struct Snap { pub items: Vec<Option<u32>>, pub stamp: u64 }

pub struct World<V> {
    pub path: std::path::PathBuf,
    pub db: Option<Database>,
    pub vec: Option<V>,
    pub cur: Snap,                   // logical state
    pub written: Snap,               // state as of the last successful write() (what a re-import must return)
    pub written_holes_dirty: bool,
    pub commits: Vec<Snap>,          // committed states S0..Sn (S0 = state before the first commit, if still in the window)
    pub baseline: Option<Snap>,      // state the first change record of this session is a delta against (import / reset time), if still meaningful
    pub dirty_since_commit: bool,
    pub soft: Vec<(String, String)>,  // violations of clauses that are recorded findings: reported, but the history continues
    pub records: usize,              // change records of the live chain still on disk (<= retention)
    pub written_chain: (Vec<Snap>, usize),   // (commits, records) as of the last write: an in-memory rollback is lost by a re-import
    pub next_val: u32,
    pub forced: bool,
    pub per_page: usize,
}

pub enum Step { Ok, Pruned, Fail(String, String) }

fn opts<'a>(db: &'a Database, name: &'a str) -> ImportOptions<'a> {
    let o: ImportOptions = (db, name, Version::TWO).into();
    o.with_saved_stamped_changes(RETENTION)
}

impl<V> World<V>
where
    V: StoredVec<I = usize, T = u32> + RawOps,
{
    pub fn new(forced: bool) -> Self {
        let path = scratch_dir("vec");
        let db = Database::open(&path).expect("open");
        let vec = if forced { V::forced_import_with(opts(&db, "v")) } else { V::import_with(opts(&db, "v")) }.expect("import");
        let e = Snap { items: vec![], stamp: 0 };
        World { path, db: Some(db), vec: Some(vec), cur: e.clone(), written: e.clone(), written_holes_dirty: false, commits: vec![], baseline: Some(e.clone()), dirty_since_commit: false, soft: vec![], records: 0, written_chain: (vec![], 0), next_val: 100, forced, per_page: 0 }
    }
    fn v(&mut self) -> &mut V { self.vec.as_mut().unwrap() }
    fn fresh(&mut self) -> u32 { self.next_val += 1; self.next_val }
    fn import(&self, db: &Database) -> vecdb::Result<V> {
        if self.forced { V::forced_import_with(opts(db, "v")) } else { V::import_with(opts(db, "v")) }
    }

    pub fn apply(&mut self, op: &Op) -> Step {
        let len = self.cur.items.len();
        match op {
            Op::Push(k) => {
                for _ in 0..*k { let x = self.fresh(); self.v().push(x); self.cur.items.push(Some(x)); }
                self.dirty_since_commit = true;
                Step::Ok
            }
            Op::Truncate(s) => {
                if matches!(s, Sel::Mid | Sel::Last) && len < 2 { return Step::Pruned; }
                let at = s.resolve(len);
                if let Err(e) = self.v().truncate_if_needed_at(at) { return Step::Fail("C03.truncate".into(), format!("truncate_if_needed_at({at}) failed: {e}")); }
                if at < len { self.cur.items.truncate(at); self.dirty_since_commit = true; }
                Step::Ok
            }
            Op::Update(s) => {
                if !V::RAW { return Step::Pruned; }
                if matches!(s, Sel::Mid | Sel::Last | Sel::First) && len == 0 { return Step::Pruned; }
                let at = s.resolve(len);
                let x = self.fresh();
                let r = self.v().r_update_at(at, x);
                match (r, at >= len) {
                    (Err(vecdb::Error::IndexTooHigh { .. }), true) => Step::Ok,
                    (Err(e), true) => Step::Fail("C13.refuse".into(), format!("update_at({at}) beyond length {len}: unexpected error {e}")),
                    (Ok(()), true) => Step::Fail("C13.refuse".into(), format!("update_at({at}) beyond length {len} was accepted")),
                    (Err(e), false) => Step::Fail("C03.update".into(), format!("update_at({at}) refused: {e}")),
                    (Ok(()), false) => { self.cur.items[at] = Some(x); self.dirty_since_commit = true; Step::Ok }
                }
            }
            Op::Delete(s) => {
                if !V::RAW { return Step::Pruned; }
                if matches!(s, Sel::Mid | Sel::Last | Sel::First) && len == 0 { return Step::Pruned; }
                let at = s.resolve(len);
                self.v().r_delete_at(at);
                if at < len { self.cur.items[at] = None; self.dirty_since_commit = true; }
                Step::Ok
            }
            Op::FillHole => {
                if !V::RAW { return Step::Pruned; }
                let x = self.fresh();
                let expect = self.cur.items.iter().position(|o| o.is_none()).unwrap_or(len);
                match self.v().r_fill(x) {
                    Ok(i) => {
                        if i != expect { return Step::Fail("C03.fill".into(), format!("fill_first_hole_or_push used index {i}, the lowest deleted slot is {expect}")); }
                        if i < len { self.cur.items[i] = Some(x); } else { self.cur.items.push(Some(x)); }
                        self.dirty_since_commit = true;
                        Step::Ok
                    }
                    Err(e) => Step::Fail("C03.fill".into(), format!("fill_first_hole_or_push failed: {e}")),
                }
            }
            Op::Take(s) => {
                if !V::RAW { return Step::Pruned; }
                if len == 0 { return Step::Pruned; }
                let at = s.resolve(len);
                if at >= len { return Step::Pruned; }
                let expect = self.cur.items[at];
                match self.v().r_take_at(at) {
                    Ok(got) => {
                        if got != expect { return Step::Fail("C03.take".into(), format!("take_at({at}) returned {got:?}, the model has {expect:?}")); }
                        if expect.is_some() { self.cur.items[at] = None; self.dirty_since_commit = true; }
                        Step::Ok
                    }
                    Err(e) => Step::Fail("C03.take".into(), format!("take_at({at}) failed: {e}")),
                }
            }
            Op::CheckedPushBad => {
                let r = self.v().checked_push_at(len + 1, 7);
                match r {
                    Err(vecdb::Error::UnexpectedIndex { .. }) => Step::Ok,
                    Err(e) => Step::Fail("C13.refuse".into(), format!("checked_push_at(len+1): unexpected error {e}")),
                    Ok(()) => Step::Fail("C13.refuse".into(), "checked_push_at at the wrong index was accepted".into()),
                }
            }
            Op::Write | Op::Flush if !self.commits.is_empty() && self.dirty_since_commit => Step::Pruned, // C04 speaks of edits between commits, not of plain writes
            Op::Write => match self.v().write() {
                Ok(_) => { self.written = self.cur.clone(); self.written_chain = (self.commits.clone(), self.records); if self.commits.is_empty() && self.baseline.as_ref() != Some(&self.cur) { self.baseline = None; } Step::Ok }
                Err(e) => Step::Fail("C03.write".into(), format!("write() failed: {e}")),
            },
            Op::Flush => match self.v().flush() {
                Ok(()) => { self.written = self.cur.clone(); self.written_chain = (self.commits.clone(), self.records); if self.commits.is_empty() && self.baseline.as_ref() != Some(&self.cur) { self.baseline = None; } Step::Ok }
                Err(e) => Step::Fail("C03.write".into(), format!("flush() failed: {e}")),
            },
            Op::Commit => {
                let s = self.cur.stamp + 1;
                if self.commits.is_empty() { if let Some(b) = self.baseline.clone() { self.commits.push(b); } }
                match self.v().stamped_write_with_changes(Stamp::new(s)) {
                    Ok(()) => {
                        self.cur.stamp = s;
                        self.written = self.cur.clone();
                        self.commits.push(self.cur.clone());
                        self.records = (self.records + 1).min(RETENTION as usize);
                        let keep = RETENTION as usize + 1;
                        if self.commits.len() > keep { let d = self.commits.len() - keep; self.commits.drain(0..d); }
                        self.written_chain = (self.commits.clone(), self.records);
                        self.dirty_since_commit = false;
                        Step::Ok
                    }
                    Err(e) => Step::Fail("C04.commit".into(), format!("stamped_write_with_changes({s}) failed: {e}")),
                }
            }
            Op::Rollback => {
                // Rolling back with edits made since the last commit (in memory only: plain writes between commits are pruned above):
                // the edits are discarded like everything else the undone commit did, or the call is refused and nothing changes.
                let dirty = self.dirty_since_commit;
                if self.commits.is_empty() && self.records > 0 { return Step::Pruned; }
                let can = self.records > 0;
                if can && self.commits.len() < 2 { return Step::Pruned; }   // the previous state is not in the model (written before the first commit)
                let r = self.v().rollback();
                match (r, can) {
                    (Ok(()), true) => {
                        self.commits.pop();
                        self.records -= 1;
                        self.cur = self.commits.last().unwrap().clone();
                        self.dirty_since_commit = false;
                        Step::Ok
                    }
                    (Err(_), true) if dirty => Step::Ok,  // refused from an edited state: state must be unchanged (checked by check_all)
                    (Err(e), true) => Step::Fail("C04.rollback".into(), format!("rollback inside the retention window refused: {e}")),
                    (Ok(()), false) => Step::Fail("C16.window".into(), format!("rollback beyond the retention window ({RETENTION}) succeeded")),
                    (Err(_), false) => Step::Ok,  // refused: state must be unchanged (checked by check_all)
                }
            }
            Op::RollbackBefore(d) => {
                if self.dirty_since_commit || self.commits.len() < 2 || self.records + 1 != self.commits.len().min(RETENTION as usize + 1) { return Step::Pruned; }
                if *d > self.cur.stamp { return Step::Pruned; }
                let target = self.cur.stamp - d;       // end on the newest committed state with stamp < target
                let r = self.v().rollback_before(Stamp::new(target));
                // expected: pop while stamp >= target and an older state is available
                let mut cs = self.commits.clone();
                while cs.last().map(|s| s.stamp >= target).unwrap_or(false) && cs.len() >= 2 { cs.pop(); }
                let reached = cs.last().unwrap().clone();
                let complete = reached.stamp < target;
                match r {
                    Ok(st) => {
                        if u64::from(st) != reached.stamp { return Step::Fail("C16.before".into(), format!("rollback_before({target}) returned stamp {}, expected {}", u64::from(st), reached.stamp)); }
                        self.records -= self.commits.len() - cs.len();
                        self.commits = cs; self.cur = reached; Step::Ok
                    }
                    Err(e) => {
                        let _ = complete;
                        Step::Fail("C16.before".into(), format!("rollback_before({target}) failed with intact change records: {e}"))
                    }
                }
            }
            Op::Reset => match self.v().reset() {
                Ok(()) => { self.cur = Snap { items: vec![], stamp: 0 }; self.commits.clear(); self.records = 0; self.written_chain = (vec![], 0); self.baseline = Some(self.cur.clone()); self.dirty_since_commit = true; Step::Ok }
                Err(e) => Step::Fail("C03.reset".into(), format!("reset failed: {e}")),
            },
            Op::Reimport => {
                self.vec = None;
                let db = self.db.take().unwrap();
                let r = self.import(&db);
                self.db = Some(db);
                match r {
                    Ok(v) => {
                        self.vec = Some(v);
                        self.cur = self.written.clone();
                        self.commits = self.written_chain.0.clone();
                        self.records = self.written_chain.1;
                        self.baseline = Some(self.cur.clone());
                        self.dirty_since_commit = self.commits.last().map(|c| *c != self.cur).unwrap_or(!self.cur.items.is_empty());
                        Step::Ok
                    }
                    Err(e) => Step::Fail("C14.keep".into(), format!("re-import with identical arguments failed: {e}")),
                }
            }
            Op::Reopen => {
                if !self.commits.is_empty() && self.dirty_since_commit { return Step::Pruned; }
                if let Err(e) = self.v().flush() { return Step::Fail("C03.write".into(), format!("flush failed: {e}")); }
                self.written = self.cur.clone();
                self.written_chain = (self.commits.clone(), self.records);
                self.vec = None;
                let db = self.db.take().unwrap();
                if let Err(e) = db.flush() { return Step::Fail("C03.write".into(), format!("db flush failed: {e}")); }
                drop(db);
                let db = match Database::open(&self.path) { Ok(d) => d, Err(e) => return Step::Fail("C03.reopen".into(), format!("reopen failed: {e}")) };
                let r = self.import(&db);
                self.db = Some(db);
                match r {
                    Ok(v) => { self.vec = Some(v); self.baseline = Some(self.cur.clone()); self.dirty_since_commit = self.commits.last().map(|c| *c != self.cur).unwrap_or(!self.cur.items.is_empty()); Step::Ok }
                    Err(e) => Step::Fail("C14.keep".into(), format!("import after reopen failed: {e}")),
                }
            }
        }
    }


    fn is_raw_eager() -> bool { std::any::type_name::<V>().contains("BytesVec") || std::any::type_name::<V>().contains("ZeroCopyVec") }
    fn pushed_empty(&self) -> bool { self.vec.as_ref().unwrap().pushed().is_empty() }

    /// C07.pages: the on-disk page index describes a gap-free run of pages starting right after the header; every page
    /// but the last is full and compressed; a raw page is never full; counts add up; the last page ends at the region end.
    pub fn check_pages(&self) -> Result<(), (String, String)> {
        let db = self.db.as_ref().unwrap();
        let names: Vec<String> = db.regions().id_to_index().keys().cloned().collect();
        let Some(pn) = names.iter().find(|n| n.ends_with("_pages")) else { return Err(("C07.pages".into(), format!("no page-index region among {names:?}"))); };
        let dn = pn.trim_end_matches("_pages").to_string();
        let Some(pr) = db.get_region(pn) else { return Err(("C07.pages".into(), "page-index region missing".into())); };
        let Some(dr) = db.get_region(&dn) else { return Err(("C07.pages".into(), format!("data region {dn} missing"))); };
        let idx = pr.create_reader().read_all().to_vec();
        let data_len = dr.meta().len() as u64;
        if idx.len() % 16 != 0 { return Err(("C07.pages".into(), format!("page index length {} is not a multiple of 16", idx.len()))); }
        let per_page: u64 = (16 * 1024 / 4) as u64;
        let n = idx.len() / 16;
        let mut expect_start = 32u64; // HEADER_OFFSET
        let mut total = 0u64;
        for i in 0..n {
            let e = &idx[i * 16..i * 16 + 16];
            let start = u64::from_le_bytes(e[0..8].try_into().unwrap());
            let bytes = u32::from_le_bytes(e[8..12].try_into().unwrap()) as u64;
            let vals = u32::from_le_bytes(e[12..16].try_into().unwrap());
            let raw = vals & 0x8000_0000 != 0;
            let count = (vals & 0x7fff_ffff) as u64;
            if start != expect_start { return Err(("C07.pages".into(), format!("page {i} starts at {start}, expected {expect_start} (gap or overlap)"))); }
            if count == 0 || count > per_page { return Err(("C07.pages".into(), format!("page {i} holds {count} values (per page {per_page})"))); }
            if i + 1 < n && (count != per_page || raw) { return Err(("C07.pages".into(), format!("page {i} of {n} is not a full compressed page (count {count}, raw {raw})"))); }
            if raw && count >= per_page { return Err(("C07.pages".into(), format!("raw page {i} is full ({count})"))); }
            if raw && bytes != count * 4 { return Err(("C07.pages".into(), format!("raw page {i}: {bytes} bytes for {count} values"))); }
            expect_start = start + bytes;
            total += count;
        }
        if expect_start != data_len.max(32) { return Err(("C07.pages".into(), format!("pages end at {expect_start}, data region length is {data_len}"))); }
        let stored = self.vec.as_ref().unwrap().stored_len() as u64;
        if total != stored { return Err(("C07.pages".into(), format!("page index holds {total} values, stored_len() is {stored}"))); }
        Ok(())
    }

    /// C08: every read path agrees with the reference contents restricted to the range; none panics.
    pub fn check_reads(&self, soft: &mut Vec<(String, String)>) -> Result<(), (String, String)> {
        let v = self.vec.as_ref().unwrap();
        let items = &self.cur.items;
        let len = items.len();
        let has_holes = items.iter().any(|x| x.is_none());
        let expanded = v.stored_len() > v.real_stored_len();
        let ro = v.read_only_clone();
        let boxed = v.read_only_boxed_clone();
        let fail = |clause: &str, what: &str, from: usize, to: usize, got: &dyn std::fmt::Debug, exp: &dyn std::fmt::Debug| {
            Err((clause.to_string(), format!("{what}({from},{to}) = {:?}, reference contents give {:?}", got, exp)))
        };
        // every (from, to) in [0, len + 1]^2, plus the extreme bounds a caller may pass for "to the end" / "nothing"
        let mut pairs: Vec<(usize, usize)> = vec![];
        for from in 0..=len + 1 { for to in 0..=len + 1 { pairs.push((from, to)); } }
        for &(f, t) in &[(0usize, usize::MAX), (len, usize::MAX), (len / 2, usize::MAX), (usize::MAX, usize::MAX), (usize::MAX, 0usize)] { pairs.push((f, t)); }
        for (from, to) in pairs {
            {
                let exp: Vec<u32> = if from.min(len) >= to.min(len) { vec![] } else { items[from.min(len)..to.min(len)].iter().filter_map(|x| *x).collect() };
                let a = v.collect_range_at(from, to);
                if a != exp { return fail("C08.range", "collect_range_at", from, to, &a, &exp); }
                let b = v.fold_range_at(from, to, vec![], |mut acc: Vec<u32>, x| { acc.push(x); acc });
                if b != exp { return fail("C08.range", "fold_range_at", from, to, &b, &exp); }
                let c: Result<Vec<u32>, ()> = v.try_fold_range_at(from, to, vec![], |mut acc: Vec<u32>, x| { acc.push(x); Ok(acc) });
                if c.as_ref().ok() != Some(&exp) { return fail("C08.range", "try_fold_range_at", from, to, &c, &exp); }
                let mut d = vec![]; v.for_each_range_at(from, to, |x| d.push(x));
                if d != exp { return fail("C08.range", "for_each_range_at", from, to, &d, &exp); }
                let mut e = vec![]; v.read_into_at(from, to, &mut e);
                if e != exp { return fail("C08.range", "read_into_at", from, to, &e, &exp); }
                let mut f = vec![]; v.for_each_range_dyn_at(from, to, &mut |x| f.push(x));
                if f != exp { return fail("C08.range", "for_each_range_dyn_at", from, to, &f, &exp); }
                let g = v.collect_range_dyn(from, to);
                if g != exp { return fail("C08.range", "collect_range_dyn", from, to, &g, &exp); }
                // early exit of try_fold: stop after the first element
                let h: Result<u32, u32> = v.try_fold_range_at(from, to, 0u32, |_acc, x| Err(x));
                if h != exp.first().map(|x| Err(*x)).unwrap_or(Ok(0)) { return fail("C08.range", "try_fold_range_at(early exit)", from, to, &h, &exp.first()); }
                if v.min_at(from, to) != exp.iter().copied().min() { return fail("C08.agg", "min_at", from, to, &v.min_at(from, to), &exp.iter().min()); }
                if v.max_at(from, to) != exp.iter().copied().max() { return fail("C08.agg", "max_at", from, to, &v.max_at(from, to), &exp.iter().max()); }
                let es = if exp.is_empty() { None } else { Some(exp.iter().sum::<u32>()) };
                if v.sum_at(from, to) != es { return fail("C08.agg", "sum_at", from, to, &v.sum_at(from, to), &es); }
                if v.max_dyn(from, to) != exp.iter().copied().max() { return fail("C08.agg", "max_dyn", from, to, &v.max_dyn(from, to), &exp.iter().max()); }
                // read-only clones see the stored part and the shared length only: compare on the stored prefix when clean
                let clean = self.cur == self.written && self.pushed_empty() && !(V::RAW && v.r_has_overlay());
                if clean || (expanded && self.pushed_empty() && !self.dirty_since_commit) {
                    let clause = if expanded { "C08.clone-expanded" } else { "C08.clone" };
                    let r1 = ro.collect_range_at(from, to);
                    if r1 != exp { if expanded { soft.push((clause.into(), format!("read_only_clone.collect_range_at({from},{to}) = {r1:?}, reference contents give {exp:?}"))); } else { return fail(clause, "read_only_clone.collect_range_at", from, to, &r1, &exp); } }
                    let r2 = boxed.collect_range_dyn(from, to);
                    if r2 != exp { if expanded { soft.push((clause.into(), format!("read_only_boxed_clone.collect_range_dyn({from},{to}) = {r2:?}"))); } else { return fail(clause, "read_only_boxed_clone.collect_range_dyn", from, to, &r2, &exp); } }
                    if V::RAW && !has_holes && clean {
                        let m1 = v.r_stored_scan(from, to, false);
                        if m1 != exp { return fail("C08.stored-scan", "fold_stored_mmap", from, to, &m1, &exp); }
                        let m2 = v.r_stored_scan(from, to, true);
                        if m2 != exp { return fail("C08.stored-scan", "fold_stored_io", from, to, &m2, &exp); }
                    }
                }
            }
        }
        for i in 0..=len + 1 {
            let exp = items.get(i).copied().flatten();
            let a = v.collect_one_at(i);
            if a != exp { return Err(("C08.point".into(), format!("collect_one_at({i}) = {a:?}, reference contents give {exp:?}"))); }
            // cursor: positional reads; with deleted slots this is the recorded finding F7 (wrong element or panic)
            let clause = if has_holes { "C08.cursor-holes" } else { "C08.cursor" };
            let got = std::panic::catch_unwind(std::panic::AssertUnwindSafe(|| { let mut c = v.cursor(); c.get(i) }));
            match got {
                Ok(g) if g == exp => {}
                Ok(g) => { let e = (clause.to_string(), format!("cursor().get({i}) = {g:?}, reference contents give {exp:?}")); if has_holes { soft.push(e); } else { return Err(e); } }
                Err(_) => { let e = (clause.to_string(), format!("cursor().get({i}) panicked, reference contents give {exp:?}")); if has_holes { soft.push(e); } else { return Err(e); } }
            }
            // point read by index (read_once / read_at): the element of that index, whether stored or still buffered, or nothing beyond the length
            if V::RAW && !(exp.is_none() && i < len) && !v.r_has_overlay() {
                let got = v.r_read_once(i);
                if got != exp { return Err(("C08.read-once".into(), format!("read_at_once({i}) = {got:?}, reference contents give {exp:?} (stored_len {}, len {len})", v.stored_len()))); }
            }
            if V::RAW && i < v.stored_len() {
                let overlay = exp.is_none() || v.r_has_overlay();
                let clause = if overlay { "C08.vecreader-overlay" } else { "C08.vecreader" };
                let got = v.r_reader_try_get(i);
                if got != exp { let e = (clause.to_string(), format!("reader().try_get({i}) = {got:?}, reference contents give {exp:?}")); if overlay { soft.push(e); } else { return Err(e); } }
            }
        }
        // sorted reads: all ascending pairs (duplicates included)
        let clause = if has_holes { "C08.sorted-holes" } else { "C08.sorted" };
        for i in 0..=len { for j in i..=len {
            let idx = [i, j];
            let exp: Vec<u32> = idx.iter().filter_map(|&k| items.get(k).copied().flatten()).collect();
            let got = std::panic::catch_unwind(std::panic::AssertUnwindSafe(|| v.read_sorted_at(&idx)));
            match got {
                Ok(g) if g == exp => {}
                Ok(g) => { let e = (clause.to_string(), format!("read_sorted_at({idx:?}) = {g:?}, reference contents give {exp:?}")); if has_holes { soft.push(e); } else { return Err(e); } }
                Err(_) => { let e = (clause.to_string(), format!("read_sorted_at({idx:?}) panicked")); if has_holes { soft.push(e); } else { return Err(e); } }
            }
        }}
        // signed ranges
        for (f, t) in [(Some(-1i64), None), (Some(-2), Some(-1)), (None, Some(-1)), (Some(0), Some(len as i64 + 3)), (Some(-(len as i64) - 2), None)] {
            let conv = |x: i64| -> usize { if x >= 0 { (x as usize).min(len) } else { len.saturating_sub((-x) as usize) } };
            let (a, b) = (f.map(conv).unwrap_or(0), t.map(conv).unwrap_or(len));
            let exp: Vec<u32> = if a >= b { vec![] } else { items[a..b].iter().filter_map(|x| *x).collect() };
            let got = v.collect_signed_range(f, t);
            if got != exp { return Err(("C08.signed".into(), format!("collect_signed_range({f:?},{t:?}) = {got:?}, reference contents give {exp:?}"))); }
        }
        Ok(())
    }

    pub fn check_all(&mut self) -> Result<u64, (String, String)> {
        let cur = self.cur.clone();
        let v = self.vec.as_ref().unwrap();
        let len = cur.items.len();
        if v.len() != len { return Err(("C03.len".into(), format!("len() = {} but the model has {len}", v.len()))); }
        if u64::from(v.stamp()) != cur.stamp { return Err(("C03.stamp".into(), format!("stamp() = {} but the model has {}", u64::from(v.stamp()), cur.stamp))); }
        let dense: Vec<u32> = cur.items.iter().filter_map(|x| *x).collect();
        if V::RAW {
            match v.r_collect_holed() {
                Ok(h) => if h != cur.items { return Err(("C03.content".into(), format!("contents {:?} != model {:?}", h, cur.items))); },
                Err(e) => return Err(("C03.content".into(), format!("collect_holed failed: {e}"))),
            }
        }
        if !V::RAW && !Self::is_raw_eager() && cur == self.written && self.pushed_empty() {
            if let Err(e) = self.check_pages() { return Err(e); }
        }
        if std::env::var("RAC_READS").is_ok() {
            let mut soft = vec![];
            let r = self.check_reads(&mut soft);
            self.soft.extend(soft);
            if let Err(e) = r { return Err(e); }
        }
        let v = self.vec.as_ref().unwrap();
        let got = v.collect();
        if got != dense { return Err(("C03.content".into(), format!("collect() = {:?} != model {:?}", got, dense))); }
        Ok(hash_of(&(len, cur.items.iter().map(|x| x.is_some()).collect::<Vec<_>>(), cur.stamp, self.commits.len(), v.stored_len())))
    }
}

impl<V> Drop for World<V> {
    fn drop(&mut self) {
        self.vec = None;
        self.db = None;
        rm(&self.path);
    }
}

pub fn page_alphabet() -> Vec<Op> {
    vec![Op::Push(1), Op::Push(4095), Op::Push(4096), Op::Push(4097), Op::Truncate(Sel::Mid), Op::Truncate(Sel::Last), Op::Truncate(Sel::First),
         Op::Write, Op::Commit, Op::Rollback, Op::Reimport, Op::Reset]
}

pub fn chain_alphabet(raw: bool) -> Vec<Op> {
    let mut v = vec![Op::Push(1), Op::Truncate(Sel::Last), Op::Truncate(Sel::Mid), Op::Commit, Op::Commit, Op::Rollback, Op::Rollback, Op::RollbackBefore(1), Op::Reimport];
    if raw { v.extend([Op::Update(Sel::First), Op::Update(Sel::Last), Op::Delete(Sel::First), Op::FillHole]); }
    v
}

pub fn alphabet(raw: bool, thorough: bool) -> Vec<Op> {
    if std::env::var("RAC_PAGE_ALPHABET").is_ok() { return page_alphabet(); }
    if std::env::var("RAC_CHAIN_ALPHABET").is_ok() { return chain_alphabet(raw); }
    let mut v = vec![Op::Push(1), Op::Push(3), Op::Truncate(Sel::First), Op::Truncate(Sel::Mid), Op::Truncate(Sel::Last), Op::Truncate(Sel::Past),
        Op::CheckedPushBad, Op::Write, Op::Commit, Op::Rollback, Op::RollbackBefore(1), Op::RollbackBefore(2), Op::Reset, Op::Reimport];
    if thorough { v.push(Op::Flush); v.push(Op::Reopen); v.push(Op::RollbackBefore(0)); }
    if raw {
        v.extend([Op::Update(Sel::First), Op::Update(Sel::Last), Op::Update(Sel::Len), Op::Delete(Sel::First), Op::Delete(Sel::Mid), Op::FillHole, Op::Take(Sel::Mid)]);
    }
    v
}

pub fn run_history<V: StoredVec<I = usize, T = u32> + RawOps>(ops: &[Op], rep: &mut Report, skip_pruned: bool, forced: bool) -> Result<bool, Failure> {
    let mut w: World<V> = World::new(forced);
    let mut hist = vec![];
    for op in ops {
        hist.push(op.to_string());
        let r = std::panic::catch_unwind(std::panic::AssertUnwindSafe(|| w.apply(op)));
        match r {
            Err(p) => {
                let msg = p.downcast_ref::<String>().cloned().or_else(|| p.downcast_ref::<&str>().map(|s| s.to_string())).unwrap_or_default();
                // release the files even after a panic inside the library (a forgotten world leaks descriptors: thousands of
                // panicking histories then exhaust them and crash the driver instead of reporting the violation)
                let _ = std::panic::catch_unwind(std::panic::AssertUnwindSafe(move || drop(w)));
                return Err(Failure { clause: "C08.nopanic".into(), detail: format!("panic: {msg}"), history: hist });
            }
            Ok(Step::Pruned) => { hist.pop(); if skip_pruned { continue; } else { return Ok(false); } }
            Ok(Step::Fail(c, d)) => return Err(Failure { clause: c, detail: d, history: hist }),
            Ok(Step::Ok) => {}
        }
        rep.steps += 1;
        let chk = std::panic::catch_unwind(std::panic::AssertUnwindSafe(|| w.check_all()));
        match chk {
            Err(p) => {
                let msg = p.downcast_ref::<String>().cloned().or_else(|| p.downcast_ref::<&str>().map(|s| s.to_string())).unwrap_or_default();
                // release the files even after a panic inside the library (a forgotten world leaks descriptors: thousands of
                // panicking histories then exhaust them and crash the driver instead of reporting the violation)
                let _ = std::panic::catch_unwind(std::panic::AssertUnwindSafe(move || drop(w)));
                return Err(Failure { clause: "C08.nopanic".into(), detail: format!("panic while reading: {msg}"), history: hist });
            }
            Ok(Err((c, d))) => return Err(Failure { clause: c, detail: d, history: hist }),
            Ok(Ok(h)) => { rep.distinct.insert(h); }
        }
        for (c, d) in w.soft.drain(..) {
            match rep.failures.iter_mut().find(|f| f.clause == c) {
                Some(f) => { if hist.len() < f.history.len() { f.history = hist.clone(); f.detail = d; } }
                None => rep.failures.push(Failure { clause: c, detail: d, history: hist.clone() }),
            }
        }
    }
    Ok(true)
}

pub fn run_format<V: StoredVec<I = usize, T = u32> + RawOps>(name: &str, depth: usize, random_secs: u64, random_depth: usize, seed: u64, thorough: bool, threads: usize) -> Report {
    let alpha = alphabet(V::RAW, thorough);
    let n = alpha.len();
    let mut total = Report { suite: format!("vec:{name}"), ..Default::default() };
    if std::env::var("RAC_PAGE_ALPHABET").is_ok() { total.suite = format!("vecpages:{name}"); }
    if std::env::var("RAC_READS").is_ok() { total.suite = format!("vecreads:{name}"); }
    if std::env::var("RAC_CHAIN_ALPHABET").is_ok() { total.suite = format!("vecchain:{name}"); }
    total.bound = if std::env::var("RAC_CHAIN_ALPHABET").is_ok() { format!("format {name}, commit-chain alphabet: exhaustive over all histories of <= {depth} operations from {{push 1, truncate mid|last, commit, rollback, rollback_before 1, re-import{}}} (commit and rollback weighted double in the random part), retention {RETENTION}; plus seeded random histories of length {random_depth} for {random_secs}s", if V::RAW { ", update first|last, delete first, fill hole" } else { "" }) } else if std::env::var("RAC_PAGE_ALPHABET").is_ok() { format!("format {name}, page-crossing alphabet: exhaustive over all histories of <= {depth} operations from {{push 1|4095|4096|4097 (4096 values per page), truncate first|mid|last, write, commit, rollback, re-import, reset}}, page index decoded from disk and checked after every write; plus seeded random histories of length {random_depth} for {random_secs}s") } else { format!("format {name}: exhaustive over all histories of <= {depth} operations from an alphabet of {n} (push 1|3, truncate first|mid|last|past, write, commit, rollback, rollback_before 1|2, reset, re-import, refused checked push{}), retention {RETENTION}, from a fresh vector; plus seeded random histories of length {random_depth} for {random_secs}s",
        if V::RAW { ", update first|last|len, delete first|mid, fill hole, take mid" } else { "" }) };
    total.exhaustive = true;
    // pinned histories: the witnesses of recorded findings are replayed on every run, so that a recorded finding is reported
    // deterministically (and a different failure on the same history is still reported)
    if V::RAW && std::env::var("RAC_READS").is_ok() {
        for h in PINNED_READS_RAW {
            let ops: Vec<Op> = h.split(';').filter_map(|x| parse_op(x.trim())).collect();
            let mut rep = Report::default();
            rep.evaluations += 1;
            if let Err(f) = run_history::<V>(&ops, &mut rep, true, true) { rep.failures.push(f); }
            crate::rawdb_suite::merge(&mut total, rep);
        }
        total.bound.push_str(&format!("; plus {} pinned witness histories of recorded findings", PINNED_READS_RAW.len()));
    }
    let results: Vec<Report> = std::thread::scope(|sc| {
        let mut hs = vec![];
        for t in 0..threads {
            let alpha = &alpha;
            hs.push(sc.spawn(move || {
                let mut rep = Report::default();
                fn rec<V: StoredVec<I = usize, T = u32> + RawOps>(alpha: &[Op], depth: usize, cur: &mut Vec<usize>, rep: &mut Report, t: usize, threads: usize) {
                    if !cur.is_empty() {
                        let ops: Vec<Op> = cur.iter().map(|&i| alpha[i].clone()).collect();
                        rep.evaluations += 1;
                        match run_history::<V>(&ops, rep, false, true) {
                            Ok(false) => return,
                            Ok(true) => { if rep.samples.len() < 2 && cur.len() >= 4 { rep.samples.push(ops.iter().map(|o| o.to_string()).collect::<Vec<_>>().join("; ")); } }
                            Err(f) => { if rep.failures.len() < 50 { rep.failures.push(f); } return; }
                        }
                    }
                    if cur.len() == depth { return; }
                    for i in 0..alpha.len() {
                        if cur.is_empty() && i % threads != t { continue; }
                        cur.push(i);
                        rec::<V>(alpha, depth, cur, rep, t, threads);
                        cur.pop();
                    }
                }
                let mut stack = vec![];
                rec::<V>(alpha, depth, &mut stack, &mut rep, t, threads);
                rep
            }));
        }
        hs.into_iter().map(|h| h.join().unwrap()).collect()
    });
    for r in results { crate::rawdb_suite::merge(&mut total, r); }
    if random_secs > 0 {
        let deadline = std::time::Instant::now() + std::time::Duration::from_secs(random_secs);
        let results: Vec<Report> = std::thread::scope(|sc| {
            let mut hs = vec![];
            for t in 0..threads {
                let alpha = &alpha;
                hs.push(sc.spawn(move || {
                    let mut rep = Report::default();
                    let mut rng = Rng(seed.wrapping_mul(7919).wrapping_add(t as u64 + 17));
                    while std::time::Instant::now() < deadline {
                        let ops: Vec<Op> = (0..random_depth).map(|_| alpha[rng.below(alpha.len())].clone()).collect();
                        rep.evaluations += 1;
                        if let Err(f) = run_history::<V>(&ops, &mut rep, true, rng.below(2) == 0) { if rep.failures.len() < 20 { rep.failures.push(f); } }
                    }
                    rep
                }));
            }
            hs.into_iter().map(|h| h.join().unwrap()).collect()
        });
        for r in results { crate::rawdb_suite::merge(&mut total, r); }
    }
    total
}

// F3: read-only clone / VecReader after rolling back a commit that truncated stored data
const PINNED_READS_RAW: &[&str] = &["push 3; commit; truncate mid; push 1; commit; rollback"];

pub fn run(format: &str, depth: usize, random_secs: u64, random_depth: usize, seed: u64, thorough: bool, threads: usize) -> Report {
    match format {
        "bytes" => run_format::<BytesVec<usize, u32>>("bytes", depth, random_secs, random_depth, seed, thorough, threads),
        "zerocopy" => run_format::<ZeroCopyVec<usize, u32>>("zerocopy", depth, random_secs, random_depth, seed, thorough, threads),
        "pco" => run_format::<PcoVec<usize, u32>>("pco", depth, random_secs, random_depth, seed, thorough, threads),
        "lz4" => run_format::<LZ4Vec<usize, u32>>("lz4", depth, random_secs, random_depth, seed, thorough, threads),
        "zstd" => run_format::<ZstdVec<usize, u32>>("zstd", depth, random_secs, random_depth, seed, thorough, threads),
        "eager_pco" => run_format::<EagerVec<PcoVec<usize, u32>>>("eager_pco", depth, random_secs, random_depth, seed, thorough, threads),
        "eager_bytes" => run_format::<EagerVec<BytesVec<usize, u32>>>("eager_bytes", depth, random_secs, random_depth, seed, thorough, threads),
        _ => panic!("unknown format"),
    }
}

pub fn replay(format: &str, history: &[String]) -> Result<(), Failure> {
    let ops: Vec<Op> = history.iter().filter_map(|h| parse_op(h)).collect();
    let mut rep = Report::default();
    let r = match format {
        "bytes" => run_history::<BytesVec<usize, u32>>(&ops, &mut rep, true, true),
        "zerocopy" => run_history::<ZeroCopyVec<usize, u32>>(&ops, &mut rep, true, true),
        "pco" => run_history::<PcoVec<usize, u32>>(&ops, &mut rep, true, true),
        "lz4" => run_history::<LZ4Vec<usize, u32>>(&ops, &mut rep, true, true),
        "eager_pco" => run_history::<EagerVec<PcoVec<usize, u32>>>(&ops, &mut rep, true, true),
        "eager_bytes" => run_history::<EagerVec<BytesVec<usize, u32>>>(&ops, &mut rep, true, true),
        _ => run_history::<ZstdVec<usize, u32>>(&ops, &mut rep, true, true),
    };
    r?;
    if let Some(f) = rep.failures.into_iter().next() { return Err(f); }
    Ok(())
}

#[allow(dead_code)]
fn _unused(_: BTreeSet<u8>) {}
