//! C08, cached wrappers: after every operation on the wrapped vector, every read through the CachedVec (and through a clone of it,
//! which shares the snapshot) returns what the same read on the wrapped vector returns.
use crate::util::*;
use rawdb::Database;
use std::ops::DerefMut;
use vecdb::{AnyStoredVec, AnyVec, BytesVec, CachedVec, ImportableVec, ReadOnlyClone, ReadableVec, Version, WritableVec};

type V = BytesVec<usize, u32>;

#[derive(Clone, Copy, Debug, PartialEq, Eq, Hash)]
pub enum Op { Push, TruncLast, TruncMid, UpdateFirst, Write, Read }
impl std::fmt::Display for Op {
    fn fmt(&self, f: &mut std::fmt::Formatter<'_>) -> std::fmt::Result {
        write!(f, "{}", match self { Op::Push => "push 1", Op::TruncLast => "truncate last", Op::TruncMid => "truncate mid", Op::UpdateFirst => "update first", Op::Write => "write", Op::Read => "read through the cache" })
    }
}
pub fn parse(s: &str) -> Option<Op> {
    Some(match s.trim() { "push 1" => Op::Push, "truncate last" => Op::TruncLast, "truncate mid" => Op::TruncMid, "update first" => Op::UpdateFirst, "write" => Op::Write, "read through the cache" => Op::Read, _ => return None })
}

fn check<W: vecdb::TypedVec<I = usize, T = u32> + ReadableVec<usize, u32>>(who: &str, c: &CachedVec<W>) -> Result<(), (String, String)> {
    let want = c.inner.collect();
    let len = want.len();
    let got = c.collect();
    if got != want {
        // same length and version as the snapshot but other contents (an update, or a truncation followed by as many pushes): the cache key
        // (len, version) cannot see it — recorded finding F24; every other disagreement is a separate clause
        let clause = if got.len() == want.len() { "C08.cached-samelen" } else { "C08.cached" };
        return Err((clause.into(), format!("{who}: collect() through the cached wrapper = {got:?}, the wrapped vector has {want:?}")));
    }
    for (from, to) in [(0usize, len), (0, usize::MAX), (len / 2, len), (1, len.saturating_sub(1)), (len, len + 1)] {
        let a = c.collect_range_at(from, to); let b = c.inner.collect_range_at(from, to);
        if a != b { return Err(("C08.cached".into(), format!("{who}: collect_range_at({from}, {to}) through the cached wrapper = {a:?}, the wrapped vector gives {b:?}"))); }
        let mut s = 0u64; c.fold_range_at(from, to, (), |(), v| s += v as u64);
        let mut t = 0u64; c.inner.fold_range_at(from, to, (), |(), v| t += v as u64);
        if s != t { return Err(("C08.cached".into(), format!("{who}: fold_range_at({from}, {to}) through the cached wrapper sums to {s}, the wrapped vector to {t}"))); }
    }
    for i in [0usize, len.saturating_sub(1), len] {
        let a = c.collect_one_at(i); let b = c.inner.collect_one_at(i);
        if a != b { return Err(("C08.cached".into(), format!("{who}: collect_one_at({i}) through the cached wrapper = {a:?}, the wrapped vector gives {b:?}"))); }
    }
    Ok(())
}

pub fn run_history(h: &[Op]) -> Result<u64, (String, String)> {
    let path = scratch_dir("cached");
    let res = std::panic::catch_unwind(|| -> Result<u64, (String, String)> {
        let db = Database::open(&path).map_err(|e| ("C08.setup".to_string(), e.to_string()))?;
        let v: V = V::forced_import(&db, "v", Version::TWO).map_err(|e| ("C08.setup".to_string(), e.to_string()))?;
        let mut c = CachedVec::wrap(v);
        let mut next = 100u32;
        for op in h {
            match op {
                Op::Push => { next += 1; c.inner.push(next); }
                Op::TruncLast => { let n = c.inner.len(); if n > 0 { c.inner.truncate_if_needed_at(n - 1).map_err(|e| ("C08.setup".to_string(), e.to_string()))?; } }
                Op::TruncMid => { let n = c.inner.len(); c.inner.truncate_if_needed_at(n / 2).map_err(|e| ("C08.setup".to_string(), e.to_string()))?; }
                Op::UpdateFirst => { if c.inner.len() > 0 { next += 1; c.inner.deref_mut().update(0, next).map_err(|e| ("C08.setup".to_string(), e.to_string()))?; } }
                Op::Write => { c.inner.write().map_err(|e| ("C08.setup".to_string(), e.to_string()))?; }
                Op::Read => {}
            }
            check("writer", &c)?;
            // a read-only clone of the wrapper shares the snapshot; its wrapped vector is the read-only clone (stored part only)
            let c2 = c.read_only_clone();
            check("read-only clone", &c2)?;
            check("writer again", &c)?;
        }
        Ok(hash_of(&(c.inner.collect(), h.len())))
    });
    rm(&path);
    match res { Ok(r) => r, Err(p) => Err(("C08.nopanic".into(), format!("panic: {}", p.downcast_ref::<String>().cloned().or_else(|| p.downcast_ref::<&str>().map(|s| s.to_string())).unwrap_or_default()))) }
}

pub fn run(depth: usize) -> Report {
    let mut rep = Report { suite: "cached".into(), exhaustive: true, ..Default::default() };
    rep.bound = format!("exhaustive: all histories of <= {depth} operations over {{push 1, truncate last, truncate mid, update first, write, read}} on a BytesVec<usize, u32> wrapped in a CachedVec, from an empty vector; after every operation collect / collect_range_at / fold_range_at / collect_one_at through the wrapper and through a clone of it are compared with the wrapped vector");
    let alpha = [Op::Push, Op::TruncLast, Op::TruncMid, Op::UpdateFirst, Op::Write, Op::Read];
    let mut stack: Vec<Vec<Op>> = vec![vec![]];
    while let Some(h) = stack.pop() {
        if !h.is_empty() {
            rep.evaluations += 1; rep.steps += h.len() as u64;
            match run_history(&h) {
                Ok(x) => { rep.distinct.insert(x); if rep.samples.len() < 3 { rep.samples.push(h.iter().map(|o| o.to_string()).collect::<Vec<_>>().join("; ")); } }
                Err((c, d)) => { if rep.failures.len() < 400 { rep.failures.push(Failure { clause: c, detail: d, history: h.iter().map(|o| o.to_string()).collect() }); } continue; }   // extensions of a failing history fail too
            }
        }
        if h.len() < depth { for o in alpha { let mut g = h.clone(); g.push(o); stack.push(g); } }
    }
    rep
}
