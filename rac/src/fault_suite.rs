//! C16 fault model: a deleted, truncated or length-corrupted change record makes rollback fail with an error and
//! without effect; no rollback ever produces contents that were not committed; nothing panics.
use crate::util::*;
use rawdb::Database;
use std::path::PathBuf;
use vecdb::{AnyStoredVec, BytesVec, ImportOptions, ImportableVec, PcoVec, ReadableVec, Stamp, StoredVec, Version, WritableVec};

fn opts<'a>(db: &'a Database) -> ImportOptions<'a> { let o: ImportOptions = (db, "v", Version::TWO).into(); o.with_saved_stamped_changes(3) }

fn find_records(root: &std::path::Path) -> Vec<(u64, PathBuf)> {
    let mut out = vec![];
    fn walk(p: &std::path::Path, out: &mut Vec<(u64, PathBuf)>) {
        if let Ok(rd) = std::fs::read_dir(p) { for e in rd.flatten() { let p = e.path(); if p.is_dir() { walk(&p, out); } else if let Some(s) = p.file_name().and_then(|s| s.to_str()).and_then(|s| s.parse::<u64>().ok()) { out.push((s, p)); } } }
    }
    walk(&root.join("changes"), &mut out);
    out.sort();
    out
}

#[derive(Clone, Debug)]
enum Fault { Delete, Truncate(usize), Field(usize, u64), Entry(usize, usize, u64) }   // Entry(0 = modified index | 1 = previous hole, j, value)

// what a reader sees (values of the non-deleted slots) plus the deleted-slot set; the raw-only edits of history variant 2
trait Probe { fn snap(&mut self) -> (Vec<u32>, Vec<usize>); fn raw_edit(&mut self) -> bool; }
impl Probe for BytesVec<usize, u32> {
    fn snap(&mut self) -> (Vec<u32>, Vec<usize>) { let c = self.collect(); let h = std::ops::DerefMut::deref_mut(self).holes().iter().copied().collect(); (c, h) }
    fn raw_edit(&mut self) -> bool { let r = std::ops::DerefMut::deref_mut(self); r.update(0, 99).unwrap(); r.update(2, 98).unwrap(); r.delete_at(1); true }
}
impl Probe for PcoVec<usize, u32> {
    fn snap(&mut self) -> (Vec<u32>, Vec<usize>) { (self.collect(), vec![]) }
    fn raw_edit(&mut self) -> bool { false }
}

fn build<V: StoredVec<I = usize, T = u32> + Probe>(variant: usize) -> Option<(PathBuf, Database, V, Vec<(Vec<u32>, Vec<usize>)>)> {
    let path = scratch_dir("fault");
    let db = Database::open(&path).unwrap();
    let mut v = V::forced_import_with(opts(&db)).unwrap();
    let mut states = vec![(vec![], vec![])];
    // three commits: grow, (variant) shrink-and-grow or grow, grow
    for x in [11u32, 12, 13] { v.push(x); }
    v.stamped_write_with_changes(Stamp::new(1)).unwrap(); states.push(v.snap());
    if variant == 1 { v.truncate_if_needed_at(1).unwrap(); }
    if variant == 2 && !v.raw_edit() { drop(v); drop(db); rm(&path); return None; }     // variant 2: an update and a deletion of stored slots (raw formats)
    v.push(21); v.push(22);
    v.stamped_write_with_changes(Stamp::new(2)).unwrap(); states.push(v.snap());
    v.push(31);
    v.stamped_write_with_changes(Stamp::new(3)).unwrap(); states.push(v.snap());
    Some((path, db, v, states))
}

fn one<V: StoredVec<I = usize, T = u32> + Probe>(variant: usize, target_stamp: u64, fault: &Fault, reimport: bool) -> Result<u64, (String, String)> {
    let Some((path, db, v0, states)) = build::<V>(variant) else { return Ok(0); };
    let mut vopt = Some(v0);
    let res = (|| {
        let mut v = vopt.take().unwrap();
        let recs = find_records(&path);
        let Some((_, file)) = recs.iter().find(|(s, _)| *s == target_stamp) else { return Err(("C16.setup".to_string(), format!("no change record for stamp {target_stamp}: {recs:?}"))); };
        let bytes = std::fs::read(file).map_err(|e| ("C16.setup".to_string(), e.to_string()))?;
        match fault {
            Fault::Delete => { std::fs::remove_file(file).unwrap(); }
            Fault::Truncate(n) => { if *n >= bytes.len() { return Ok(0); } std::fs::write(file, &bytes[..*n]).unwrap(); }
            Fault::Field(k, val) => {
                // k-th length field of the record: prev_stored_len, stored_len, truncated count, prev_pushed len, pushed len,
                // then (raw formats) modified count, previous-holes count
                let rd = |o: usize| -> Option<usize> { bytes.get(o..o + 8).map(|b| u64::from_le_bytes(b.try_into().unwrap()) as usize) };
                let mut offs = vec![8usize, 16, 24];
                let mut o = 32 + rd(24).unwrap_or(0) * 4;               // truncated values (u32)
                offs.push(o); o += 8 + rd(o).unwrap_or(0) * 4;          // prev_pushed
                offs.push(o); o += 8 + rd(o).unwrap_or(0) * 4;          // pushed
                if o + 8 <= bytes.len() { offs.push(o); o += 8 + rd(o).unwrap_or(0) * 12; }   // raw: modified indices + values
                if o + 8 <= bytes.len() { offs.push(o); }                                       // raw: previous holes
                let Some(&off) = offs.get(*k) else { return Ok(0); };
                if off + 8 > bytes.len() { return Ok(0); }
                let mut b = bytes.clone(); b[off..off + 8].copy_from_slice(&val.to_le_bytes()); std::fs::write(file, &b).unwrap();
            }
            Fault::Entry(which, j, val) => {
                // the j-th (index, previous value) pair's index, or the j-th previous-hole index (raw formats)
                let rd = |o: usize| -> Option<usize> { bytes.get(o..o + 8).map(|b| u64::from_le_bytes(b.try_into().unwrap()) as usize) };
                let mut o = 32 + rd(24).unwrap_or(0) * 4;
                o += 8 + rd(o).unwrap_or(0) * 4;
                o += 8 + rd(o).unwrap_or(0) * 4;
                let Some(nmod) = rd(o) else { return Ok(0); };
                let mods_at = o + 8;
                let holes_count_at = mods_at + nmod * 12;
                let Some(nholes) = rd(holes_count_at) else { return Ok(0); };
                let off = if *which == 0 { if *j >= nmod { return Ok(0); } mods_at + 8 * j } else { if *j >= nholes { return Ok(0); } holes_count_at + 8 + 8 * j };
                if off + 8 > bytes.len() { return Ok(0); }
                let mut b = bytes.clone(); b[off..off + 8].copy_from_slice(&val.to_le_bytes()); std::fs::write(file, &b).unwrap();
            }
        }
        if reimport { drop(v); v = V::forced_import_with(opts(&db)).map_err(|e| ("C16.setup".to_string(), format!("re-import failed: {e}")))?; }
        // roll back step by step from stamp 3
        let mut cur = 3usize;
        loop {
            let before = v.snap();
            let stamp_before = u64::from(v.stamp());
            let r = v.rollback();
            if v.len() > 1000 {
                // do not read: the vector now claims a length far beyond anything committed (reading would leave the mapping)
                return Err(("C16.fault-uncommitted".into(), format!("rollback from stamp {cur} with {fault:?} on record {target_stamp} returned {} and the vector now reports length {} (committed states are {states:?})", if r.is_ok() { "Ok" } else { "Err" }, v.len())));
            }
            let after = v.snap();
            match r {
                Ok(()) => {
                    if cur == 0 { return Err(("C16.window".into(), "rollback succeeded below the first commit".into())); }
                    // C16: a rollback whose change record is missing or truncated fails (length-field faults may still parse)
                    if cur as u64 == target_stamp && matches!(fault, Fault::Delete | Fault::Truncate(_)) {
                        return Err(("C16.fault-accepted".into(), format!("rollback from stamp {cur} succeeded although its change record was damaged by {fault:?}")));
                    }
                    // must be exactly the previous committed state
                    if after != states[cur - 1] {
                        let clause = if states.iter().any(|s| *s == after) { "C16.fault-wrongstate" } else { "C16.fault-uncommitted" };
                        return Err((clause.into(), format!("rollback from stamp {cur} with {fault:?} on record {target_stamp} returned Ok and contents / deleted slots {after:?}; committed states are {states:?}")));
                    }
                    cur -= 1;
                    if cur == 0 { break; }
                }
                Err(_) => {
                    if after != before || u64::from(v.stamp()) != stamp_before {
                        return Err(("C16.fault-noeffect".into(), format!("rollback from stamp {cur} with {fault:?} on record {target_stamp} failed but changed the vector: {before:?}@{stamp_before} -> {after:?}@{}", u64::from(v.stamp()))));
                    }
                    break;
                }
            }
        }
        Ok(hash_of(&(variant, target_stamp, format!("{fault:?}"), reimport, cur)))
    })();
    drop(vopt); drop(db);
    rm(&path);
    res
}

pub fn run() -> Report {
    let mut rep = Report { suite: "fault".into(), exhaustive: true, ..Default::default() };
    rep.bound = "exhaustive single-file faults on a fixed 3-commit history (three variants: growing only / shrinking second commit / on raw formats two updates and a deletion of stored slots before the second commit), BytesVec and PcoVec, with and without re-import before rolling back: each of the 3 change records deleted, truncated at every byte offset, and every length field (prev_stored_len, stored_len, truncated count, prev_pushed length, pushed length, and on raw formats the modified and previous-holes counts) overwritten with 2^32, 2^63-1, 2^63, u64::MAX, and the first two modified-slot and previous-hole indices overwritten with 7, 2^32, u64::MAX-1, u64::MAX; then rollback step by step, comparing contents and deleted slots".into();
    let mut faults: Vec<Fault> = vec![Fault::Delete];
    for n in 0..200 { faults.push(Fault::Truncate(n)); }
    for k in 0..7 { for val in [1u64 << 32, (1u64 << 63) - 1, 1u64 << 63, u64::MAX] { faults.push(Fault::Field(k, val)); } }
    for which in 0..2 { for j in 0..2 { for val in [7u64, 1u64 << 32, u64::MAX - 1, u64::MAX] { faults.push(Fault::Entry(which, j, val)); } } }
    for fmt in 0..2 { for variant in 0..3 { for target in 1..=3u64 { for reimport in [false, true] { for f in &faults {
        rep.evaluations += 1;
        let hist = vec![format!("format={} history_variant={variant}", if fmt == 0 { "bytes" } else { "pco" }), format!("fault {f:?} on change record {target}"), format!("reimport={reimport}"), "rollback x3".to_string()];
        let r = std::panic::catch_unwind(|| if fmt == 0 { one::<BytesVec<usize, u32>>(variant, target, f, reimport) } else { one::<PcoVec<usize, u32>>(variant, target, f, reimport) });
        match r {
            Ok(Ok(0)) => {}
            Ok(Ok(h)) => { rep.steps += 1; rep.distinct.insert(h); if rep.samples.len() < 3 { rep.samples.push(hist.join("; ")); } }
            Ok(Err((c, d))) => { if rep.failures.len() < 200 { rep.failures.push(Failure { clause: c, detail: d, history: hist }); } }
            Err(p) => {
                let msg = p.downcast_ref::<String>().cloned().or_else(|| p.downcast_ref::<&str>().map(|s| s.to_string())).unwrap_or_default();
                if rep.failures.len() < 200 { rep.failures.push(Failure { clause: "C16.fault-nopanic".into(), detail: format!("panic: {msg}"), history: hist }); }
            }
        }
    }}}}}
    rep
}
