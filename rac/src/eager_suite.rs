//! C19: computed columns are recomputed exactly when the presented version changes; otherwise nothing below the
//! resume index is re-evaluated or altered; the recorded version survives writes and re-imports.
use crate::util::*;
use rawdb::Database;
use std::cell::RefCell;
use vecdb::{AnyStoredVec, AnyVec, BytesVec, EagerVec, Exit, ImportableVec, PcoVec, ReadableVec, StoredVec, Version, WritableVec};

#[derive(Clone, Debug, PartialEq, Eq, Hash)]
pub enum Op { Compute(u32, Sel, usize), Reimport, Flush }
#[derive(Clone, Copy, Debug, PartialEq, Eq, Hash)]
pub enum Sel { Zero, Mid, Len, Past }

impl std::fmt::Display for Op {
    fn fmt(&self, f: &mut std::fmt::Formatter<'_>) -> std::fmt::Result {
        match self {
            Op::Compute(v, s, grow) => write!(f, "compute version={v} max_from={s:?} to=len+{grow}"),
            Op::Reimport => write!(f, "reimport"),
            Op::Flush => write!(f, "flush"),
        }
    }
}

fn fval(version: u32, i: usize) -> u32 { version * 1000 + i as u32 }

fn run_history<V>(ops: &[Op], rep: &mut Report) -> Result<(), Failure>
where V: StoredVec<I = usize, T = u32>,
{
    let path = scratch_dir("eager");
    let res = (|| {
        let db = Database::open(&path).unwrap();
        let exit = Exit::new();
        let mut vec: EagerVec<V> = EagerVec::forced_import_with((&db, "e", Version::ONE).into()).map_err(|e| ("C19.setup".to_string(), e.to_string(), vec![]))?;
        let mut items: Vec<u32> = vec![];
        let mut recorded: Option<u32> = None;      // version the stored results were computed under
        let mut hist: Vec<String> = vec![];
        for op in ops {
            hist.push(op.to_string());
            match op {
                Op::Compute(v, sel, grow) => {
                    let len = items.len();
                    let max_from = match sel { Sel::Zero => 0, Sel::Mid => len / 2, Sel::Len => len, Sel::Past => len + 2 };
                    let to = len + grow;
                    let log: RefCell<Vec<usize>> = RefCell::new(vec![]);
                    let r = vec.compute_to(max_from, to, Version::new(*v), |i| { log.borrow_mut().push(i); (i, fval(*v, i)) }, &exit);
                    if let Err(e) = r { return Err(("C19.compute".to_string(), format!("compute_to failed: {e}"), hist.clone())); }
                    if recorded != Some(*v) {
                        if !items.is_empty() || recorded.is_some() { /* version change: everything is recomputed */ }
                        items.clear();
                        recorded = Some(*v);
                    }
                    let keep = items.len().min(max_from);
                    items.truncate(keep);
                    let expect_log: Vec<usize> = (keep..to.max(keep)).collect();
                    for i in keep..to.max(keep) { items.push(fval(*v, i)); }
                    let got_log = log.into_inner();
                    if got_log != expect_log {
                        let below: Vec<usize> = got_log.iter().copied().filter(|i| *i < keep).collect();
                        let clause = if !below.is_empty() { "C19.resume" } else { "C19.reset" };
                        return Err((clause.to_string(), format!("closure was evaluated at {got_log:?}, expected exactly {expect_log:?} (kept prefix {keep})"), hist.clone()));
                    }
                }
                Op::Reimport => {
                    drop(vec);
                    vec = EagerVec::forced_import_with((&db, "e", Version::ONE).into()).map_err(|e| ("C19.reimport".to_string(), e.to_string(), hist.clone()))?;
                }
                Op::Flush => { vec.flush().map_err(|e| ("C19.flush".to_string(), e.to_string(), hist.clone()))?; }
            }
            let got = vec.collect();
            if got != items {
                // values of two versions mixed?
                let mixed = got.iter().any(|x| Some(x / 1000) != recorded) ;
                let clause = if mixed { "C19.mixed" } else { "C19.content" };
                return Err((clause.to_string(), format!("stored results {got:?}, expected {items:?} (all under version {recorded:?})"), hist.clone()));
            }
            rep.steps += 1;
            rep.distinct.insert(hash_of(&(items.len(), recorded, vec.stored_len())));
        }
        Ok(())
    })();
    rm(&path);
    res.map_err(|(c, d, h): (String, String, Vec<String>)| Failure { clause: c, detail: d, history: h })
}

pub fn alphabet() -> Vec<Op> {
    let mut v = vec![Op::Reimport, Op::Flush];
    for ver in [1u32, 2] { for s in [Sel::Zero, Sel::Mid, Sel::Len, Sel::Past] { for g in [0usize, 3] { v.push(Op::Compute(ver, s, g)); } } }
    v
}

pub fn run(depth: usize, threads: usize) -> Report {
    let alpha = alphabet();
    let mut total = Report { suite: "eager".into(), exhaustive: true, ..Default::default() };
    total.bound = format!("exhaustive: all histories of <= {depth} operations over {{compute_to(version 1|2, max_from 0|len/2|len|len+2, to len|len+3) with a recording closure, re-import, flush}} on EagerVec<BytesVec> and EagerVec<PcoVec>");
    for fmt in 0..2 {
        let results: Vec<Report> = std::thread::scope(|sc| {
            let mut hs = vec![];
            for t in 0..threads {
                let alpha = &alpha;
                hs.push(sc.spawn(move || {
                    let mut rep = Report::default();
                    fn rec(alpha: &[Op], depth: usize, cur: &mut Vec<usize>, rep: &mut Report, t: usize, threads: usize, fmt: usize) {
                        if cur.len() == depth {
                            let ops: Vec<Op> = cur.iter().map(|&i| alpha[i].clone()).collect();
                            rep.evaluations += 1;
                            let r = std::panic::catch_unwind(std::panic::AssertUnwindSafe(|| if fmt == 0 { run_history::<BytesVec<usize, u32>>(&ops, rep) } else { run_history::<PcoVec<usize, u32>>(&ops, rep) }));
                            match r {
                                Ok(Ok(())) => { if rep.samples.len() < 2 { rep.samples.push(ops.iter().map(|o| o.to_string()).collect::<Vec<_>>().join("; ")); } }
                                Ok(Err(f)) => { if rep.failures.len() < 40 { rep.failures.push(f); } }
                                Err(_) => { if rep.failures.len() < 40 { rep.failures.push(Failure { clause: "C19.nopanic".into(), detail: "panic".into(), history: ops.iter().map(|o| o.to_string()).collect() }); } }
                            }
                            return;
                        }
                        for i in 0..alpha.len() {
                            if cur.is_empty() && i % threads != t { continue; }
                            cur.push(i);
                            rec(alpha, depth, cur, rep, t, threads, fmt);
                            cur.pop();
                        }
                    }
                    let mut st = vec![];
                    rec(alpha, depth, &mut st, &mut rep, t, threads, fmt);
                    rep
                }));
            }
            hs.into_iter().map(|h| h.join().unwrap()).collect()
        });
        for r in results { crate::rawdb_suite::merge(&mut total, r); }
    }
    total
}
