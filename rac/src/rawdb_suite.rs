//! rawdb: executable form of the C01 / C02 / C12 / C13 contracts, checked after every step of
//! exhaustively enumerated (and, beyond the exhaustive depth, seeded random) operation histories.
use crate::util::*;
use rawdb::{Database, Error};
use std::collections::{BTreeMap, HashSet};
use std::path::Path;

pub const PAGE: usize = 4096;

#[derive(Clone, Copy, Debug, PartialEq, Eq, Hash)]
pub enum At { Zero, Half, Len, Past }

impl At {
    fn resolve(self, len: usize) -> usize {
        match self { At::Zero => 0, At::Half => len / 2, At::Len => len, At::Past => len + 1 }
    }
    fn name(self) -> &'static str { match self { At::Zero => "zero", At::Half => "half", At::Len => "len", At::Past => "past" } }
    fn parse(s: &str) -> At { match s { "zero" => At::Zero, "half" => At::Half, "len" => At::Len, _ => At::Past } }
}

#[derive(Clone, Debug, PartialEq, Eq, Hash)]
pub enum Op {
    Create(String),
    Append(String, usize),
    WriteAt(String, At, usize),
    Truncate(String, At),
    TruncateWrite(String, At, usize),
    Rename(String, String),
    Remove(String),
    RemoveHeld(String),
    Retain(Vec<String>),
    FlushRegion(String),
    Flush,
    Compact,
    Reopen,
}

impl std::fmt::Display for Op {
    fn fmt(&self, f: &mut std::fmt::Formatter<'_>) -> std::fmt::Result {
        match self {
            Op::Create(n) => write!(f, "create {n}"),
            Op::Append(n, s) => write!(f, "append {n} {s}"),
            Op::WriteAt(n, a, s) => write!(f, "write_at {n} {} {s}", a.name()),
            Op::Truncate(n, a) => write!(f, "truncate {n} {}", a.name()),
            Op::TruncateWrite(n, a, s) => write!(f, "truncate_write {n} {} {s}", a.name()),
            Op::Rename(a, b) => write!(f, "rename {a} {b}"),
            Op::Remove(n) => write!(f, "remove {n}"),
            Op::RemoveHeld(n) => write!(f, "remove_held {n}"),
            Op::Retain(v) => write!(f, "retain {}", v.join(",")),
            Op::FlushRegion(n) => write!(f, "flush_region {n}"),
            Op::Flush => write!(f, "flush"),
            Op::Compact => write!(f, "compact"),
            Op::Reopen => write!(f, "reopen"),
        }
    }
}

pub fn parse_op(s: &str) -> Option<Op> {
    let p: Vec<&str> = s.split_whitespace().collect();
    Some(match p.as_slice() {
        ["create", n] => Op::Create(n.to_string()),
        ["append", n, s] => Op::Append(n.to_string(), s.parse().ok()?),
        ["write_at", n, a, s] => Op::WriteAt(n.to_string(), At::parse(a), s.parse().ok()?),
        ["truncate", n, a] => Op::Truncate(n.to_string(), At::parse(a)),
        ["truncate_write", n, a, s] => Op::TruncateWrite(n.to_string(), At::parse(a), s.parse().ok()?),
        ["rename", a, b] => Op::Rename(a.to_string(), b.to_string()),
        ["remove", n] => Op::Remove(n.to_string()),
        ["remove_held", n] => Op::RemoveHeld(n.to_string()),
        ["retain", v] => Op::Retain(v.split(',').filter(|x| !x.is_empty()).map(|x| x.to_string()).collect()),
        ["retain"] => Op::Retain(vec![]),
        ["flush_region", n] => Op::FlushRegion(n.to_string()),
        ["flush"] => Op::Flush,
        ["compact"] => Op::Compact,
        ["reopen"] => Op::Reopen,
        _ => return None,
    })
}

pub fn alphabet(thorough: bool) -> Vec<Op> {
    let names = ["a", "b"];
    let sizes: &[usize] = if thorough { &[0, 1, 4096, 4097, 9000] } else { &[1, 4096, 4097, 9000] };
    let wsizes: &[usize] = &[1, 5000];
    let mut v = vec![];
    for n in names {
        let n = n.to_string();
        v.push(Op::Create(n.clone()));
        for &s in sizes { v.push(Op::Append(n.clone(), s)); }
        for a in [At::Zero, At::Half, At::Len, At::Past] { for &s in wsizes { v.push(Op::WriteAt(n.clone(), a, s)); } }
        for a in [At::Zero, At::Half, At::Past] { v.push(Op::Truncate(n.clone(), a)); }
        for a in [At::Zero, At::Half, At::Past] { for &s in wsizes { v.push(Op::TruncateWrite(n.clone(), a, s)); } }
        v.push(Op::Rename(n.clone(), "c".into()));
        v.push(Op::Rename(n.clone(), if n == "a" { "b".into() } else { "a".into() }));
        v.push(Op::Remove(n.clone()));
        v.push(Op::RemoveHeld(n.clone()));
        if thorough { v.push(Op::FlushRegion(n.clone())); }
    }
    v.push(Op::Retain(vec!["a".into()]));
    v.push(Op::Flush);
    v.push(Op::Compact);
    v.push(Op::Reopen);
    v
}

pub struct World {
    pub path: std::path::PathBuf,
    pub db: Option<Database>,
    pub model: BTreeMap<String, Vec<u8>>,
    /// names that "ever held data or were renamed" (C01): only these must survive flush + reopen
    pub persistable: HashSet<String>,
    pub seq: u64,
}

fn pattern(seq: u64, n: usize) -> Vec<u8> {
    (0..n).map(|i| ((seq as usize).wrapping_mul(37).wrapping_add(i.wrapping_mul(7)).wrapping_add(1)) as u8).collect()
}

pub enum Step { Ok, Pruned, Fail(String, String) }

impl World {
    pub fn new() -> Self {
        let path = scratch_dir("rawdb");
        let db = Database::open(&path).expect("open");
        World { path, db: Some(db), model: BTreeMap::new(), persistable: HashSet::new(), seq: 0 }
    }
    pub fn db(&self) -> &Database { self.db.as_ref().unwrap() }

    /// Apply one operation to the real database and to the reference model; returns a failed clause if the
    /// call's own contract (result / refusal) is violated. State contracts are checked by `check_all`.
    pub fn apply(&mut self, op: &Op) -> Step {
        self.seq += 1;
        let seq = self.seq;
        match op {
            Op::Create(n) => {
                if self.model.contains_key(n) { return Step::Pruned; }
                let (had_hole, end_before) = {
                    let l = self.db().layout();
                    (l.start_to_hole().values().any(|&s| s >= PAGE), l.len())
                };
                match self.db().create_region_if_needed(n) {
                    Ok(_r) => {}
                    Err(e) => return Step::Fail("C01.create".into(), format!("create_region_if_needed({n}) failed: {e}")),
                }
                self.model.insert(n.clone(), vec![]);
                let end_after = self.db().layout().len();
                if had_hole && end_after > end_before {
                    return Step::Fail("C02.placement".into(), format!("a hole >= one page existed but the allocated area grew {end_before} -> {end_after}"));
                }
                Step::Ok
            }
            Op::Append(n, s) => {
                let Some(m) = self.model.get_mut(n) else { return Step::Pruned };
                let data = pattern(seq, *s);
                let r = self.db.as_ref().unwrap().get_region(n).unwrap().write(&data);
                if let Err(e) = r { return Step::Fail("C01.write".into(), format!("append refused: {e}")); }
                m.extend_from_slice(&data);
                Step::Ok
            }
            Op::WriteAt(n, a, s) => {
                let Some(m) = self.model.get_mut(n) else { return Step::Pruned };
                let at = a.resolve(m.len());
                if *a == At::Half && m.len() < 2 { return Step::Pruned; }
                let data = pattern(seq, *s);
                let r = self.db.as_ref().unwrap().get_region(n).unwrap().write_at(&data, at);
                let expect_err = at > m.len();
                match (r, expect_err) {
                    (Err(Error::WriteOutOfBounds { .. }), true) => Step::Ok,
                    (Err(e), true) => Step::Fail("C13.refuse".into(), format!("write_at beyond end: unexpected error kind {e}")),
                    (Ok(()), true) => Step::Fail("C13.refuse".into(), format!("write_at({at}) beyond length {} was accepted", m.len())),
                    (Err(e), false) => Step::Fail("C01.write".into(), format!("valid write_at({at}) refused: {e}")),
                    (Ok(()), false) => {
                        let end = at + data.len();
                        if end > m.len() { m.resize(end, 0); }
                        m[at..end].copy_from_slice(&data);
                        Step::Ok
                    }
                }
            }
            Op::Truncate(n, a) => {
                let Some(m) = self.model.get_mut(n) else { return Step::Pruned };
                if *a == At::Half && m.len() < 2 { return Step::Pruned; }
                let to = a.resolve(m.len());
                let r = self.db.as_ref().unwrap().get_region(n).unwrap().truncate(to);
                let expect_err = to > m.len();
                match (r, expect_err) {
                    (Err(Error::TruncateInvalid { .. }), true) => Step::Ok,
                    (Err(e), true) => Step::Fail("C13.refuse".into(), format!("truncate beyond length: unexpected error kind {e}")),
                    (Ok(()), true) => Step::Fail("C13.refuse".into(), format!("truncate({to}) beyond length {} was accepted", m.len())),
                    (Err(e), false) => Step::Fail("C01.truncate".into(), format!("valid truncate({to}) refused: {e}")),
                    (Ok(()), false) => { m.truncate(to); Step::Ok }
                }
            }
            Op::TruncateWrite(n, a, s) => {
                let Some(m) = self.model.get_mut(n) else { return Step::Pruned };
                if *a == At::Half && m.len() < 2 { return Step::Pruned; }
                let at = a.resolve(m.len());
                let data = pattern(seq, *s);
                let r = self.db.as_ref().unwrap().get_region(n).unwrap().truncate_write(at, &data);
                let expect_err = at > m.len();
                match (r, expect_err) {
                    (Err(Error::WriteOutOfBounds { .. }), true) => Step::Ok,
                    (Err(e), true) => Step::Fail("C13.refuse".into(), format!("truncate_write beyond end: unexpected error kind {e}")),
                    (Ok(()), true) => Step::Fail("C13.refuse".into(), format!("truncate_write({at}) beyond length {} was accepted", m.len())),
                    (Err(e), false) => Step::Fail("C01.write".into(), format!("valid truncate_write({at}) refused: {e}")),
                    (Ok(()), false) => { m.truncate(at); m.extend_from_slice(&data); Step::Ok }
                }
            }
            Op::Rename(a, b) => {
                if !self.model.contains_key(a) { return Step::Pruned; }
                let r = self.db().get_region(a).unwrap().rename(b);
                let expect_err = self.model.contains_key(b);
                match (r, expect_err) {
                    (Err(Error::RegionAlreadyExists), true) => Step::Ok,
                    (Err(e), true) => Step::Fail("C13.refuse".into(), format!("rename onto existing name: unexpected error kind {e}")),
                    (Ok(()), true) => Step::Fail("C13.refuse".into(), format!("rename {a} -> existing {b} was accepted")),
                    (Err(e), false) => Step::Fail("C01.rename".into(), format!("valid rename refused: {e}")),
                    (Ok(()), false) => { let v = self.model.remove(a).unwrap(); self.model.insert(b.clone(), v); self.persistable.remove(a); self.persistable.insert(b.clone()); Step::Ok }
                }
            }
            Op::Remove(n) => {
                if !self.model.contains_key(n) { return Step::Pruned; }
                let r = self.db().get_region(n).unwrap().remove();
                match r {
                    Ok(()) => { self.model.remove(n); Step::Ok }
                    Err(e) => Step::Fail("C01.remove".into(), format!("remove of an unreferenced region refused: {e}")),
                }
            }
            Op::RemoveHeld(n) => {
                if !self.model.contains_key(n) { return Step::Pruned; }
                let extra = self.db().get_region(n).unwrap();
                let r = self.db().get_region(n).unwrap().remove();
                drop(extra);
                match r {
                    Err(Error::RegionStillReferenced { .. }) => Step::Ok, // must have had no effect: check_all compares with the unchanged model
                    Err(e) => Step::Fail("C13.refuse".into(), format!("remove of a referenced region: unexpected error kind {e}")),
                    Ok(()) => Step::Fail("C13.refuse".into(), "remove of a region that is still referenced was accepted".into()),
                }
            }
            Op::Retain(keep) => {
                let set: HashSet<String> = keep.iter().cloned().collect();
                if let Err(e) = self.db().retain_regions(set.clone()) {
                    return Step::Fail("C01.retain".into(), format!("retain_regions failed: {e}"));
                }
                self.model.retain(|k, _| set.contains(k));
                Step::Ok
            }
            Op::FlushRegion(n) => {
                if !self.model.contains_key(n) { return Step::Pruned; }
                match self.db().get_region(n).unwrap().flush() {
                    Ok(_) => Step::Ok,
                    // a region that never held data and was never renamed has no metadata slot to flush yet: the library refuses
                    // (RegionMetadataUnwritten) and C01 does not ask such a region to survive; the state contracts after this step
                    // still check that the refusal changed nothing
                    Err(rawdb::Error::RegionMetadataUnwritten) if !self.persistable.contains(n) => Step::Ok,
                    Err(e) => Step::Fail("C01.flush".into(), format!("region flush failed: {e}")),
                }
            }
            Op::Flush => match self.db().flush() {
                Ok(_) => {
                    if !self.db().layout().pending_holes().is_empty() {
                        return Step::Fail("C02.promoted".into(), "pending holes remain after a successful flush".into());
                    }
                    Step::Ok
                }
                Err(e) => Step::Fail("C01.flush".into(), format!("flush failed: {e}")),
            },
            Op::Compact => {
                let len_before = self.db().file_len();
                let meta_before = std::fs::metadata(self.path.join("data")).map(|m| m.len()).unwrap_or(0);
                if let Err(e) = self.db().compact() {
                    return Step::Fail("C12.compact".into(), format!("compact failed: {e}"));
                }
                let meta_after = std::fs::metadata(self.path.join("data")).map(|m| m.len()).unwrap_or(0);
                if self.db().file_len() != len_before || meta_after != meta_before {
                    return Step::Fail("C12.keepsize".into(), format!("compact changed the file length {meta_before} -> {meta_after}"));
                }
                Step::Ok
            }
            Op::Reopen => {
                if let Err(e) = self.db().flush() { return Step::Fail("C01.flush".into(), format!("flush failed: {e}")); }
                self.db = None;
                match Database::open(&self.path) {
                    Ok(db) => {
                        // C01: "a region that ever held data or was renamed survives"; a region that never did
                        // may be absent after reopen (its slot was never written) -- then it leaves the model.
                        let gone: Vec<String> = self.model.keys().filter(|n| !self.persistable.contains(*n) && db.get_region(n).is_none()).cloned().collect();
                        for n in gone { self.model.remove(&n); }
                        self.db = Some(db);
                        Step::Ok
                    }
                    Err(e) => Step::Fail("C01.reopen".into(), format!("reopen after flush failed: {e}")),
                }
            }
        }
    }

    /// State contracts: reference-model equality (C01), layout representation invariant (C02).
    pub fn check_all(&self) -> Result<u64, (String, String)> {
        let db = self.db();
        // ---- C01: names, lengths, bytes
        let names: Vec<String> = { let r = db.regions(); let mut v: Vec<String> = r.id_to_index().keys().cloned().collect(); v.sort(); v };
        let mnames: Vec<String> = self.model.keys().cloned().collect();
        if names != mnames {
            return Err(("C01.names".into(), format!("live region names {names:?} != model {mnames:?}")));
        }
        for (n, bytes) in &self.model {
            let Some(region) = db.get_region(n) else { return Err(("C01.names".into(), format!("region {n} missing"))); };
            if region.meta().id() != n.as_str() {
                return Err(("C01.names".into(), format!("region listed as {n} carries the name {:?} in its metadata", region.meta().id())));
            }
            let len = region.meta().len();
            if len != bytes.len() {
                return Err(("C01.len".into(), format!("region {n}: length {len} != model {}", bytes.len())));
            }
            let reader = region.create_reader();
            let got = reader.read_all();
            if got != &bytes[..] {
                let i = got.iter().zip(bytes.iter()).position(|(x, y)| x != y).unwrap_or(0);
                return Err(("C01.bytes".into(), format!("region {n}: byte {i} is {} but the model has {}", got[i], bytes[i])));
            }
        }
        // ---- C02: extents
        let layout = db.layout();
        #[derive(Clone, Copy, PartialEq, Eq, PartialOrd, Ord, Debug, Hash)]
        enum K { Region, Hole, Pending, Reserved }
        let mut ext: Vec<(usize, usize, K)> = vec![];
        let mut in_layout = 0usize;
        for (start, region) in layout.start_to_region() {
            let m = region.meta();
            if m.start() != *start { return Err(("C02.keyed".into(), format!("region filed under {start} has metadata start {}", m.start()))); }
            if m.len() > m.reserved() { return Err(("C02.len-in-reserve".into(), format!("region at {start}: len {} > reserved {}", m.len(), m.reserved()))); }
            if m.reserved() < PAGE { return Err(("C02.aligned".into(), format!("region at {start}: reserved {} < one page", m.reserved()))); }
            ext.push((*start, m.reserved(), K::Region));
            in_layout += 1;
        }
        if in_layout != self.model.len() {
            return Err(("C02.regions".into(), format!("layout lists {in_layout} regions, table has {}", self.model.len())));
        }
        for (s, z) in layout.start_to_hole() { ext.push((*s, *z, K::Hole)); }
        for (s, z) in layout.pending_holes() { ext.push((*s, *z, K::Pending)); }
        for (s, z) in layout.start_to_reserved() { ext.push((*s, *z, K::Reserved)); }
        ext.sort();
        let mut end = 0usize;
        let mut prev_kind: Option<K> = None;
        for (s, z, k) in &ext {
            if s % PAGE != 0 || z % PAGE != 0 || *z == 0 { return Err(("C02.aligned".into(), format!("{k:?} extent [{s},+{z}) is not page aligned / empty"))); }
            if *s < end { return Err(("C02.disjoint".into(), format!("{k:?} extent [{s},+{z}) overlaps the previous extent ending at {end}"))); }
            if *s > end { return Err(("C02.gapfree".into(), format!("bytes [{end},{s}) below the end of the allocated area belong to no extent"))); }
            if *k == K::Hole && prev_kind == Some(K::Hole) { return Err(("C02.merged".into(), format!("two adjacent free extents meet at {s}"))); }
            prev_kind = Some(*k);
            end = s + z;
        }
        if end != layout.len() { return Err(("C02.end".into(), format!("Layout::len() = {} but extents end at {end}", layout.len()))); }
        if end > db.file_len() { return Err(("C02.filelen".into(), format!("allocated area ends at {end}, file length is {}", db.file_len()))); }
        // inverse index
        let idx = layout.hole_to_starts();
        let mut n_idx = 0;
        for (size, starts) in &idx {
            if starts.is_empty() { return Err(("C02.index".into(), format!("empty bucket for size {size}"))); }
            for st in starts {
                n_idx += 1;
                if layout.start_to_hole().get(st) != Some(size) { return Err(("C02.index".into(), format!("index lists hole {st} under size {size}, map says {:?}", layout.start_to_hole().get(st)))); }
            }
        }
        if n_idx != layout.start_to_hole().len() { return Err(("C02.index".into(), format!("index lists {n_idx} holes, map has {}", layout.start_to_hole().len()))); }
        // abstract state hash (shape only): names, lengths, extent kinds and sizes in pages
        let shape: Vec<(usize, usize, u8)> = ext.iter().map(|(s, z, k)| (s / PAGE, z / PAGE, *k as u8)).collect();
        let lens: Vec<(String, usize)> = self.model.iter().map(|(k, v)| (k.clone(), v.len())).collect();
        Ok(hash_of(&(shape, lens)))
    }
}

impl Drop for World {
    fn drop(&mut self) {
        self.db = None;
        rm(&self.path);
    }
}

/// Run one history from an empty database; Err on the first violated contract.
pub fn run_history(ops: &[Op], rep: &mut Report, skip_pruned: bool) -> Result<bool, Failure> {
    let mut w = World::new();
    let mut hist = vec![];
    for op in ops {
        hist.push(op.to_string());
        let r = std::panic::catch_unwind(std::panic::AssertUnwindSafe(|| w.apply(op)));
        match r {
            Err(p) => {
                let msg = p.downcast_ref::<String>().cloned().or_else(|| p.downcast_ref::<&str>().map(|s| s.to_string())).unwrap_or_default();
                let _ = std::panic::catch_unwind(std::panic::AssertUnwindSafe(move || drop(w))); // state may be poisoned; still release the files
                return Err(Failure { clause: "C01.nopanic".into(), detail: format!("panic: {msg}"), history: hist });
            }
            Ok(Step::Pruned) => { hist.pop(); if skip_pruned { continue; } else { return Ok(false); } }
            Ok(Step::Fail(c, d)) => return Err(Failure { clause: c, detail: d, history: hist }),
            Ok(Step::Ok) => {}
        }
        let nonempty: Vec<String> = w.model.iter().filter(|(_, v)| !v.is_empty()).map(|(k, _)| k.clone()).collect();
        for n in nonempty { w.persistable.insert(n); }
        let live: HashSet<String> = w.model.keys().cloned().collect();
        w.persistable.retain(|n| live.contains(n));
        rep.steps += 1;
        let chk = std::panic::catch_unwind(std::panic::AssertUnwindSafe(|| w.check_all()));
        match chk {
            Err(p) => {
                let msg = p.downcast_ref::<String>().cloned().or_else(|| p.downcast_ref::<&str>().map(|s| s.to_string())).unwrap_or_default();
                let _ = std::panic::catch_unwind(std::panic::AssertUnwindSafe(move || drop(w)));
                return Err(Failure { clause: "C01.nopanic".into(), detail: format!("panic while reading back: {msg}"), history: hist });
            }
            Ok(Err((c, d))) => return Err(Failure { clause: c, detail: d, history: hist }),
            Ok(Ok(h)) => { rep.distinct.insert(h); }
        }
    }
    Ok(true)
}

pub fn run(depth: usize, random_secs: u64, random_depth: usize, seed: u64, thorough: bool, threads: usize) -> Report {
    let alpha = alphabet(thorough);
    let n = alpha.len();
    let mut total = Report { suite: "rawdb".into(), ..Default::default() };
    total.bound = format!("exhaustive: all histories of <= {depth} operations over an alphabet of {n} operations (2 region names + rename target, sizes {{1,4096,4097,9000}}, positions {{0,len/2,len,len+1}}), from an empty database; plus seeded random histories of length {random_depth} for {random_secs}s");
    total.exhaustive = true;
    // exhaustive part, split by first op across threads
    let results: Vec<Report> = std::thread::scope(|sc| {
        let mut hs = vec![];
        for t in 0..threads {
            let alpha = &alpha;
            hs.push(sc.spawn(move || {
                let mut rep = Report::default();
                let mut stack: Vec<usize> = vec![];
                // iterate all sequences of length exactly `depth` (prefix checks happen inside run_history);
                // a pruned prefix skips its whole subtree.
                fn rec(alpha: &[Op], depth: usize, cur: &mut Vec<usize>, rep: &mut Report, t: usize, threads: usize) {
                    if !cur.is_empty() {
                        let ops: Vec<Op> = cur.iter().map(|&i| alpha[i].clone()).collect();
                        rep.evaluations += 1;
                        match run_history(&ops, rep, false) {
                            Ok(false) => return, // pruned: last op not applicable
                            Ok(true) => { if rep.samples.len() < 3 && cur.len() >= 3 { rep.samples.push(ops.iter().map(|o| o.to_string()).collect::<Vec<_>>().join("; ")); } }
                            Err(f) => { if rep.failures.len() < 50 { rep.failures.push(f); } return; }
                        }
                    }
                    if cur.len() == depth { return; }
                    for i in 0..alpha.len() {
                        if cur.is_empty() && i % threads != t { continue; }
                        cur.push(i);
                        rec(alpha, depth, cur, rep, t, threads);
                        cur.pop();
                    }
                }
                rec(alpha, depth, &mut stack, &mut rep, t, threads);
                rep
            }));
        }
        hs.into_iter().map(|h| h.join().unwrap()).collect()
    });
    for r in results { merge(&mut total, r); }
    // random extension
    if random_secs > 0 {
        let deadline = std::time::Instant::now() + std::time::Duration::from_secs(random_secs);
        let results: Vec<Report> = std::thread::scope(|sc| {
            let mut hs = vec![];
            for t in 0..threads {
                let alpha = &alpha;
                hs.push(sc.spawn(move || {
                    let mut rep = Report::default();
                    let mut rng = Rng(seed.wrapping_mul(1000003).wrapping_add(t as u64 + 1));
                    while std::time::Instant::now() < deadline {
                        // build a history that avoids inapplicable ops by retrying choices
                        let mut ops: Vec<Op> = vec![];
                        let mut live: HashSet<String> = HashSet::new();
                        while ops.len() < random_depth {
                            let op = alpha[rng.below(alpha.len())].clone();
                            let ok = match &op {
                                Op::Create(n) => !live.contains(n),
                                Op::Append(n, _) | Op::WriteAt(n, _, _) | Op::Truncate(n, _) | Op::TruncateWrite(n, _, _) | Op::Remove(n) | Op::RemoveHeld(n) | Op::FlushRegion(n) => live.contains(n),
                                Op::Rename(a, _) => live.contains(a),
                                _ => true,
                            };
                            if !ok { continue; }
                            match &op {
                                Op::Create(n) => { live.insert(n.clone()); }
                                Op::Remove(n) => { live.remove(n); }
                                Op::Rename(a, b) => { if !live.contains(b) { live.remove(a); live.insert(b.clone()); } }
                                Op::Retain(k) => { live.retain(|x| k.contains(x)); }
                                _ => {}
                            }
                            ops.push(op);
                        }
                        rep.evaluations += 1;
                        if let Err(f) = run_history(&ops, &mut rep, true) { if rep.failures.len() < 20 { rep.failures.push(f); } }
                    }
                    rep
                }));
            }
            hs.into_iter().map(|h| h.join().unwrap()).collect()
        });
        for r in results { merge(&mut total, r); }
    }
    total
}

pub fn merge(total: &mut Report, r: Report) {
    total.evaluations += r.evaluations;
    total.steps += r.steps;
    total.distinct.extend(r.distinct);
    for f in r.failures { if total.failures.len() < 60 { total.failures.push(f); } }
    for s in r.samples { if total.samples.len() < 4 { total.samples.push(s); } }
}

pub fn replay(path: &Path, history: &[String]) -> Result<(), Failure> {
    let _ = path;
    let ops: Vec<Op> = history.iter().filter_map(|h| parse_op(h)).collect();
    let mut rep = Report::default();
    run_history(&ops, &mut rep, true).map(|_| ())
}
