// std::option -- documented behaviour of combinators vstd does not specify.
pub assume_specification<'a, T: Copy> [std::option::Option::<&'a T>::copied] (o: Option<&'a T>) -> (r: Option<T>)
    ensures r == (match o { Some(x) => Some(*x), None => None::<T> }),
;

pub assume_specification<T, F: FnOnce(T) -> bool> [std::option::Option::<T>::is_none_or] (o: Option<T>, f: F) -> (r: bool)
    requires o is Some ==> f.requires((o->Some_0,)),
    ensures match o { None => r, Some(x) => f.ensures((x,), r) },
;
