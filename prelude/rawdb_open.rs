// Open-path shims (U17): advisory-lock typestate. OS semantics of flock / O_TRUNC are assumed.
pub tracked struct OWorld {
    pub ghost locked: Set<int>,        // file handles on which try_lock succeeded
    pub ghost mods: nat,               // modifying effects so far: set_len, sync_all, mmap creation, metadata fill
    pub ghost refused: bool,           // a try_lock was refused
    pub ghost locks: nat,              // successful try_lock calls so far
}
#[verifier::external_body] pub struct PathH { _p: core::marker::PhantomData<u8> }
#[verifier::external_body] pub struct PathBufH { _p: core::marker::PhantomData<u8> }
#[verifier::external_body] pub struct FileH { _p: core::marker::PhantomData<u8> }
#[verifier::external_body] pub struct MetadataH { _p: core::marker::PhantomData<u8> }
#[verifier::external_body] pub struct MmapH { _p: core::marker::PhantomData<u8> }
#[verifier::external_body] pub struct IoErr { _p: core::marker::PhantomData<u8> }
#[verifier::external_body] pub struct LockErr { _p: core::marker::PhantomData<u8> }
#[verifier::external_body] pub struct Database { _p: core::marker::PhantomData<u8> }
pub struct OpenOptions { pub ghost rd: bool, pub ghost cr: bool, pub ghost wr: bool, pub ghost tr: bool }
impl OpenOptions {
    #[verifier::external_body] pub fn new() -> (r: Self) ensures !r.rd, !r.cr, !r.wr, !r.tr { unimplemented!() }
    #[verifier::external_body] pub fn read(self, b: bool) -> (r: Self) ensures r.rd == b, r.cr == self.cr, r.wr == self.wr, r.tr == self.tr { unimplemented!() }
    #[verifier::external_body] pub fn create(self, b: bool) -> (r: Self) ensures r.cr == b, r.rd == self.rd, r.wr == self.wr, r.tr == self.tr { unimplemented!() }
    #[verifier::external_body] pub fn write(self, b: bool) -> (r: Self) ensures r.wr == b, r.rd == self.rd, r.cr == self.cr, r.tr == self.tr { unimplemented!() }
    #[verifier::external_body] pub fn truncate(self, b: bool) -> (r: Self) ensures r.tr == b, r.rd == self.rd, r.cr == self.cr, r.wr == self.wr { unimplemented!() }
    // C18.notrunc: opening must never truncate (a second opener would destroy the first one's data before being refused)
    #[verifier::external_body]
    pub fn open(self, p: PathBufH) -> (r: std::result::Result<FileH, IoErr>)
        requires !self.tr
    { unimplemented!() }
}
impl FileH {
    pub uninterp spec fn id(&self) -> int;
    // fs::File::try_lock: exclusive advisory lock, non-blocking
    #[verifier::external_body]
    pub fn try_lock(&self, Tracked(w): Tracked<&mut OWorld>) -> (r: std::result::Result<(), LockErr>)
        ensures final(w).mods == old(w).mods,
                r is Ok ==> final(w).locked == old(w).locked.insert(self.id()) && final(w).refused == old(w).refused && final(w).locks == old(w).locks + 1,
                r is Err ==> final(w).locked == old(w).locked && final(w).refused && final(w).locks == old(w).locks
    { unimplemented!() }
    #[verifier::external_body] pub fn metadata(&self) -> std::result::Result<MetadataH, IoErr> { unimplemented!() }
    // C18.lockfirst: every modifying call on the file requires the lock
    #[verifier::external_body]
    pub fn set_len(&self, n: u64, Tracked(w): Tracked<&mut OWorld>) -> (r: std::result::Result<(), IoErr>)
        requires old(w).locked.contains(self.id())
        ensures final(w).locked == old(w).locked, final(w).refused == old(w).refused, final(w).mods == old(w).mods + 1, final(w).locks == old(w).locks
    { unimplemented!() }
    #[verifier::external_body]
    pub fn sync_all(&self, Tracked(w): Tracked<&mut OWorld>) -> (r: std::result::Result<(), IoErr>)
        requires old(w).locked.contains(self.id())
        ensures final(w).locked == old(w).locked, final(w).refused == old(w).refused, final(w).mods == old(w).mods + 1, final(w).locks == old(w).locks
    { unimplemented!() }
}
impl MetadataH { #[verifier::external_body] pub fn len(&self) -> u64 { unimplemented!() } }
impl PathH {
    #[verifier::external_body] pub fn join(&self, s: &str) -> PathBufH { unimplemented!() }
    #[verifier::external_body] pub fn to_owned(&self) -> PathBufH { unimplemented!() }
}
pub mod fs {
    use super::*;
    #[verifier::external_body] pub fn create_dir_all(p: &PathH) -> std::result::Result<(), IoErr> { unimplemented!() }
}
// a writable shared mapping of the file: only the lock holder may create it
#[verifier::external_body]
pub fn create_mmap(f: &FileH, Tracked(w): Tracked<&mut OWorld>) -> (r: Result<MmapH>)
    requires old(w).locked.contains(f.id())
    ensures final(w).locked == old(w).locked, final(w).refused == old(w).refused, final(w).mods == old(w).mods + 1, final(w).locks == old(w).locks
{ unimplemented!() }
