// Shims for the change directory of a vector (U31): one file per retained commit, named by the decimal stamp.
// The directory is a ghost map stamp -> bytes in a world token; std::fs by its documented meaning (assumed).
pub tracked struct FS {
    pub ghost dir: Map<u64, Seq<u8>>,
}
#[verifier::external_body] pub struct PathH { _p: core::marker::PhantomData<u8> }
impl PathH {
    pub uninterp spec fn stamp(&self) -> u64;        // the stamp a record's path is named after
}
impl From<IoErr> for Error { #[verifier::external_body] fn from(e: IoErr) -> (r: Error) ensures r is IO { unimplemented!() } }

// the stamps below `bound` present in the directory, in increasing order (BTreeMap iteration order)
pub uninterp spec fn older_sorted(dir: Map<u64, Seq<u8>>, bound: u64) -> Seq<u64>;
pub broadcast axiom fn older_sorted_props(dir: Map<u64, Seq<u8>>, bound: u64)
    ensures #![trigger older_sorted(dir, bound)]
        forall|i: int, j: int| 0 <= i < j < older_sorted(dir, bound).len() ==> older_sorted(dir, bound)[i] < older_sorted(dir, bound)[j],
        forall|s: u64| older_sorted(dir, bound).contains(s) <==> (dir.dom().contains(s) && s < bound);

// fs::create_dir_all: no effect on the records
#[verifier::external_body]
pub fn fs_create_dir_all(p: &PathH) -> (r: std::result::Result<(), IoErr>) { unimplemented!() }

// the BTreeMap<Stamp, PathBuf> collected from the directory scan
#[verifier::external_body] pub struct StampFiles { _p: core::marker::PhantomData<u8> }
impl StampFiles {
    pub uninterp spec fn keys(&self) -> Seq<u64>;
    #[verifier::external_body] pub fn len(&self) -> (r: usize) ensures r == self.keys().len() { unimplemented!() }
    // the i-th entry in key order (`files.iter()` yields entries by increasing stamp)
    #[verifier::external_body] pub fn path_at(&self, i: usize) -> (r: &PathH) requires i < self.keys().len() ensures r.stamp() == self.keys()[i as int] { unimplemented!() }
}
// N7 (per-site chain): fs::read_dir(dir)?.filter_map(|entry| { parse the file name as a stamp s; if keep(s) { Some((s, path)) } else
// { let _ = fs::remove_file(&path); None } }).collect::<BTreeMap<_, _>>()
// `keep` stays the repository's condition; it must decide "strictly below `bound`" for the result to be the sorted older stamps.
// Assumed: the silent removal of a rejected entry succeeds; names that are not decimal numbers are neither listed nor removed.
#[verifier::external_body]
pub fn scan_change_dir<F: Fn(Stamp) -> bool>(p: &PathH, keep: F, Ghost(bound): Ghost<u64>, Tracked(w): Tracked<&mut FS>) -> (r: std::result::Result<StampFiles, IoErr>)
    requires forall|s: Stamp| #[trigger] keep.requires((s,)),
             forall|s: Stamp, k: bool| #[trigger] keep.ensures((s,), k) ==> k == (s.0 < bound),
    ensures r is Err ==> *final(w) == *old(w),
            r matches Ok(files) ==> files.keys() == older_sorted(old(w).dir, bound)
                && final(w).dir == old(w).dir.restrict(old(w).dir.dom().filter(|s: u64| s < bound))
{ unimplemented!() }
// fs::remove_file(path)
#[verifier::external_body]
pub fn fs_remove_file(p: &PathH, Tracked(w): Tracked<&mut FS>) -> (r: std::result::Result<(), IoErr>)
    ensures r is Ok ==> final(w).dir == old(w).dir.remove(p.stamp()),
            r is Err ==> *final(w) == *old(w)
{ unimplemented!() }
// fs::write(dir.join(n.to_string()), data): creates or replaces the record named by the decimal number n
#[verifier::external_body]
pub fn fs_write_named(p: &PathH, n: u64, data: &[u8], Tracked(w): Tracked<&mut FS>) -> (r: std::result::Result<(), IoErr>)
    ensures r is Ok ==> final(w).dir == old(w).dir.insert(n, data@),
            r is Err ==> final(w).dir == old(w).dir || final(w).dir == old(w).dir.remove(n) || (exists|b: Seq<u8>| final(w).dir == old(w).dir.insert(n, b))
{ unimplemented!() }
