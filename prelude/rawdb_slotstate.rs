// The metadata slot state machine (U27): the atomic state byte and the region's slot of the metadata file as ghost state.
pub tracked struct SW {
    pub ghost st: u8,                 // RegionState: 0 clean, 1 needs flush, 2 needs write
    pub ghost slot: Seq<u8>,          // the 4096 bytes of this region's slot in the metadata mapping
    pub ghost flushed: Seq<(usize, usize)>,   // flush_async_range calls so far: (offset, len)
}
#[verifier::external_body] pub struct AtomicCell { _p: core::marker::PhantomData<u8> }
impl AtomicCell {
    // AtomicU8::load(Acquire) / store(v, Release) under A_seq (one thread at a time touches a region's metadata: it sits behind an RwLock)
    #[verifier::external_body] pub fn load_h(&self, Tracked(w): Tracked<&mut SW>) -> (r: u8) ensures *final(w) == *old(w), r == old(w).st { unimplemented!() }
    #[verifier::external_body] pub fn store_h(&self, v: u8, Tracked(w): Tracked<&mut SW>) ensures *final(w) == (SW { st: v, ..*old(w) }) { unimplemented!() }
    #[verifier::external_body] pub fn new_h(v: u8) -> AtomicCell { unimplemented!() }
}
#[verifier::external_body] pub struct RegionsS { _p: core::marker::PhantomData<u8> }
#[verifier::external_body] pub struct MmapS { _p: core::marker::PhantomData<u8> }
#[verifier::external_body] pub struct IoErr { _p: core::marker::PhantomData<u8> }
#[verifier::external_body] pub struct LockErr { _p: core::marker::PhantomData<u8> }
impl RegionsS {
    // Regions::write_at(index, bytes): the slot of region `index` gets the bytes (U4 / U22: offset index * 4096, inside the mapping)
    #[verifier::external_body] pub fn write_at(&self, index: usize, data: &[u8], Tracked(w): Tracked<&mut SW>)
        requires data@.len() == 4096
        ensures *final(w) == (SW { slot: data@, ..*old(w) })
    { unimplemented!() }
    #[verifier::external_body] pub fn mmap(&self) -> &MmapS { unimplemented!() }
}
impl MmapS {
    #[verifier::external_body] pub fn flush_async_range(&self, offset: usize, len: usize, Tracked(w): Tracked<&mut SW>) -> (r: std::result::Result<(), IoErr>)
        ensures final(w).st == old(w).st, final(w).slot == old(w).slot, final(w).flushed == old(w).flushed.push((offset, len))
    { unimplemented!() }
}
