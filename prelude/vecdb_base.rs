// vecdb base shims (U6): SharedLen / Header as plain cells (N10, N14: interior mutability made explicit),
// the rawdb Region and the change directory as opaque effects, WithPrev's Clone/Default-dependent methods as trusted contracts.
use std::collections::{BTreeMap, BTreeSet};

pub trait ViewEmpty: Sized {
    spec fn is_empty_v(&self) -> bool;
    spec fn same_v(&self, o: &Self) -> bool;
}
impl<T> ViewEmpty for BTreeMap<usize, T> {
    open spec fn is_empty_v(&self) -> bool { self@ == Map::<usize, T>::empty() }
    open spec fn same_v(&self, o: &Self) -> bool { self@ == o@ }
}
impl ViewEmpty for BTreeSet<usize> {
    open spec fn is_empty_v(&self) -> bool { self@ == Set::<usize>::empty() }
    open spec fn same_v(&self, o: &Self) -> bool { self@ == o@ }
}
impl<T> ViewEmpty for Vec<T> {
    open spec fn is_empty_v(&self) -> bool { self@.len() == 0 }
    open spec fn same_v(&self, o: &Self) -> bool { self@ == o@ }
}

pub struct SharedLen { pub v: usize }
impl SharedLen {
    pub fn get(&self) -> (r: usize) ensures r == self.v { self.v }
    pub fn set(&mut self, val: usize) ensures final(self).v == val { self.v = val; }
}
pub struct Header { pub stamp_v: Stamp, pub modified_v: bool }
impl Header {
    pub fn update_stamp(&mut self, stamp: Stamp) ensures final(self).stamp_v == stamp { self.stamp_v = stamp; }
    pub fn stamp(&self) -> (r: Stamp) ensures r == self.stamp_v { self.stamp_v }
}
pub struct ReadOnlyBaseVec<I, T> { pub stored_len: SharedLen, pub header: Header, pub phantom: core::marker::PhantomData<(I, T)> }
