// vecdb base shims (U6): SharedLen / Header as plain cells (N10, N14: interior mutability made explicit),
// the rawdb Region and the change directory as opaque effects, WithPrev's Clone/Default-dependent methods as trusted contracts.
use std::collections::{BTreeMap, BTreeSet};

pub trait ViewEmpty: Sized {
    spec fn is_empty_v(&self) -> bool;
    spec fn same_v(&self, o: &Self) -> bool;
}
impl<T> ViewEmpty for BTreeMap<usize, T> {
    open spec fn is_empty_v(&self) -> bool { self@ == Map::<usize, T>::empty() }
    open spec fn same_v(&self, o: &Self) -> bool { self@ == o@ }
}
impl ViewEmpty for BTreeSet<usize> {
    open spec fn is_empty_v(&self) -> bool { self@ == Set::<usize>::empty() }
    open spec fn same_v(&self, o: &Self) -> bool { self@ == o@ }
}
impl<T> ViewEmpty for Vec<T> {
    open spec fn is_empty_v(&self) -> bool { self@.len() == 0 }
    open spec fn same_v(&self, o: &Self) -> bool { self@ == o@ }
}

pub struct SharedLen { pub v: usize }
impl SharedLen {
    pub fn get(&self) -> (r: usize) ensures r == self.v { self.v }
    pub fn set(&mut self, val: usize) ensures final(self).v == val { self.v = val; }
}
pub struct Header { pub stamp_v: Stamp, pub modified_v: bool }
impl Header {
    pub fn update_stamp(&mut self, stamp: Stamp) ensures final(self).stamp_v == stamp { self.stamp_v = stamp; }
    pub fn stamp(&self) -> (r: Stamp) ensures r == self.stamp_v { self.stamp_v }
}
pub struct ReadOnlyBaseVec<I, T> { pub stored_len: SharedLen, pub header: Header, pub phantom: core::marker::PhantomData<(I, T)> }

// ---- compressed undo (U6): the parsed change record as ghost state, the page table's element count ----
pub tracked struct UW<T> {
    pub ghost disk: Seq<T>,          // the elements the page table accounts for (real_stored_len of them), as stored
    pub ghost ts: usize,             // the parsed record: truncated_start, truncated values, previous push buffer, previous stamp
    pub ghost tv: Seq<T>,
    pub ghost pp: Seq<T>,
    pub ghost stamp: Stamp,
}
#[verifier::external_body] pub struct ChangeCursor { _p: core::marker::PhantomData<u8> }
impl ChangeCursor { #[verifier::external_body] pub fn new(bytes: &[u8]) -> ChangeCursor { unimplemented!() } }
// `slice.get(..n)`
pub fn slice_prefix<T>(s: &[T], n: usize) -> (r: Option<&[T]>) ensures r matches Some(p) ==> n <= s@.len() && p@ == s@.take(n as int), r is None <==> n > s@.len()
{ if n <= s.len() { let p = vstd::slice::slice_subrange(s, 0, n); Some(p) } else { None } }
// extend_from_slice / extend(Vec) with cloned == source (the Clone assumption of this unit)
#[verifier::external_body] pub fn vec_extend_cloned<T: Clone>(v: &mut Vec<T>, s: &[T]) ensures final(v)@ == old(v)@ + s@ { v.extend_from_slice(s) }
#[verifier::external_body] pub fn vec_append<T>(v: &mut Vec<T>, o: Vec<T>) ensures final(v)@ == old(v)@ + o@ { v.extend(o) }
