// Import-path shims (U14): what forced_import_with may do, as a ghost world.
pub tracked struct IWorld {
    pub ghost user_version: u32,          // the version the caller passed to the entry point
    pub ghost removes: nat,               // remove_region_if_exists calls so far
    pub ghost imports: nat,               // import_with calls so far
    pub ghost first_kind: int,            // classification of the first import_with result (see err_kind)
    pub ghost removed: Set<Seq<u8>>,      // names of the regions removed so far (successful remove_region_if_exists calls)
    pub ghost gone_at_reimport: Set<Seq<u8>>, // `removed` as it stood when the second import_with was entered
}
// the region names a vector owns: `{name}/{index}` and its auxiliary region (`.._pages` for compressed, `.._holes` for raw)
pub uninterp spec fn data_name<I>(n: Seq<u8>) -> Seq<u8>;
// an auxiliary region is named after the vector's own data region (name AND index type), plus a fixed suffix
pub uninterp spec fn suffix_bytes(which: int) -> Seq<u8>;       // 1: "_holes", 2: "_pages"
pub open spec fn pages_name<I>(n: Seq<u8>) -> Seq<u8> { data_name::<I>(n) + suffix_bytes(2) }
pub open spec fn holes_name<I>(n: Seq<u8>) -> Seq<u8> { data_name::<I>(n) + suffix_bytes(1) }
// N8: format!("{}_holes", x) / format!("{}_pages", x): x followed by the literal
#[verifier::external_body] pub fn fmt_suffix(x: StrH, Ghost(which): Ghost<int>) -> (r: StrH) ensures r.bytes() == x.bytes() + suffix_bytes(which) { unimplemented!() }
#[verifier::external_body] pub struct Database { _p: core::marker::PhantomData<u8> }
// 0 = Ok, 1 = WrongEndian, 2 = WrongLength, 3 = DifferentFormat, 4 = DifferentVersion, 9 = anything else (I/O, lock, rawdb ...)
pub open spec fn err_kind<V>(r: Result<V>) -> int {
    match r {
        Ok(_) => 0,
        Err(Error::WrongEndian) => 1,
        Err(Error::WrongLength { .. }) => 2,
        Err(Error::DifferentFormat { .. }) => 3,
        Err(Error::DifferentVersion { .. }) => 4,
        Err(_) => 9,
    }
}
pub open spec fn is_mismatch(k: int) -> bool { 1 <= k <= 4 }
impl Database {
    // discards a region: the only destructive call on the import path
    #[verifier::external_body]
    pub fn remove_region_if_exists(&self, name: &StrH, Tracked(w): Tracked<&mut IWorld>) -> (r: std::result::Result<(), RawDbErr>)
        requires old(w).imports >= 1 && is_mismatch(old(w).first_kind)      // C14.onlymismatch
        ensures final(w).removes == old(w).removes + 1, final(w).imports == old(w).imports, final(w).first_kind == old(w).first_kind,
                final(w).user_version == old(w).user_version, final(w).gone_at_reimport == old(w).gone_at_reimport,
                final(w).removed == (if r is Ok { old(w).removed.insert(name.bytes()) } else { old(w).removed })
    { unimplemented!() }
}
impl From<RawDbErr> for Error { #[verifier::external_body] fn from(e: RawDbErr) -> (r: Error) ensures r is RawDB { unimplemented!() } }
#[verifier::external_body] pub fn vec_region_name_with<I>(name: &StrH) -> (r: StrH) ensures r.bytes() == data_name::<I>(name.bytes()) { unimplemented!() }
