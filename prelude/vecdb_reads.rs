// Shims for the point-read sites (U20, C20): a Reader as the snapshot (start, len) of one region over the mmap; pointers into it carry
// the region-relative offset they were derived from, so that every decode site states "these bytes lie inside the region".
pub const HEADER_OFFSET: usize = 32;
pub uninterp spec fn sz<T>() -> nat;
#[verifier::external_body]
pub fn size_of_t<T>() -> (r: usize) ensures r == sz::<T>(), r > 0, r <= 4096 { unimplemented!() }

#[verifier::external_body] pub struct MmapH { _p: core::marker::PhantomData<u8> }
impl MmapH {
    pub uninterp spec fn mlen(&self) -> usize;
    // &mmap[a..b] / &mmap[a..]: slicing panics outside the mapping
    #[verifier::external_body]
    pub fn range(&self, a: usize, b: usize) -> (r: &[u8]) requires a <= b, b <= self.mlen() ensures r@.len() == b - a { unimplemented!() }
    #[verifier::external_body]
    pub fn from(&self, a: usize) -> (r: &[u8]) requires a <= self.mlen() ensures r@.len() == self.mlen() - a { unimplemented!() }
}
#[verifier::external_body] pub struct RegionR { _p: core::marker::PhantomData<u8> }
#[verifier::external_body] pub struct DatabaseR { _p: core::marker::PhantomData<u8> }

// ---- as seen from vecdb: the Reader handle, the slice `prefixed(off)` returns and pointers into it ----
#[verifier::external_body] pub struct ReaderV { _p: core::marker::PhantomData<u8> }
#[verifier::external_body] pub struct SliceV { _p: core::marker::PhantomData<u8> }
#[verifier::external_body] #[derive(Clone, Copy)] pub struct PtrV { _p: core::marker::PhantomData<u8> }
impl ReaderV {
    pub uninterp spec fn rlen(&self) -> usize;          // the region's length when the reader was created
    #[verifier::external_body] pub fn len(&self) -> (r: usize) ensures r == self.rlen() { unimplemented!() }
    // Reader::prefixed(offset): asserts offset <= len; the slice runs to the end of the MAPPING (documented), so the callers carry the bound
    #[verifier::external_body]
    pub fn prefixed(&self, offset: usize) -> (r: SliceV) requires offset <= self.rlen() ensures r.off() == offset, r.rlen() == self.rlen() { unimplemented!() }
    // Reader::unchecked_read(offset, len): "caller must ensure offset + len <= self.len()" (proved sufficient on the real function below)
    #[verifier::external_body]
    pub fn unchecked_read(&self, offset: usize, len: usize) -> (r: &[u8]) requires offset + len <= self.rlen() ensures r@.len() == len { unimplemented!() }
}
impl SliceV {
    pub uninterp spec fn off(&self) -> usize;
    pub uninterp spec fn rlen(&self) -> usize;
    #[verifier::external_body] pub fn as_ptr(&self) -> (r: PtrV) ensures r.off() == self.off(), r.rlen() == self.rlen() { unimplemented!() }
}
impl PtrV {
    pub uninterp spec fn off(&self) -> usize;           // region-relative offset of the pointee
    pub uninterp spec fn rlen(&self) -> usize;
    // ptr.add(n)
    #[verifier::external_body] pub fn add(self, n: usize) -> (r: PtrV) requires self.off() + n <= usize::MAX ensures r.off() == self.off() + n, r.rlen() == self.rlen() { unimplemented!() }
}
pub trait RawStrategy<T>: Sized {
    // N11: `unsafe { S::read_from_ptr(ptr, byte_off) }`: decodes size_of::<T>() bytes at ptr + byte_off. C20: they lie inside the region
    fn read_from_ptr(ptr: PtrV, byte_offset: usize) -> (r: T)
        requires ptr.off() + byte_offset + sz::<T>() <= ptr.rlen();
}
#[verifier::external_body] pub fn likely(b: bool) -> (r: bool) ensures r == b { b }
#[verifier::external_body] pub fn unlikely(b: bool) -> (r: bool) ensures r == b { b }

// ---- the vectors, as far as the point-read sites use them ----
pub struct ReadOnlyBaseVec<I, T> { pub stored_len_v: usize, pub region_v: RegionV, pub phantom: core::marker::PhantomData<(I, T)> }
impl<I, T> Clone for ReadOnlyBaseVec<I, T> { #[verifier::external_body] fn clone(&self) -> Self { unimplemented!() } }
impl<I, T> ReadOnlyBaseVec<I, T> {
    // For read-only vecs, len == stored_len (shared with the writer)
    pub fn len(&self) -> (r: usize) ensures r == self.stored_len_v { self.stored_len_v }
    pub fn region(&self) -> (r: &RegionV) ensures *r == self.region_v { &self.region_v }
}
#[verifier::external_body] pub struct RegionV { _p: core::marker::PhantomData<u8> }
impl Clone for RegionV { #[verifier::external_body] fn clone(&self) -> Self { unimplemented!() } }
impl RegionV {
    pub uninterp spec fn rlen(&self) -> usize;       // the region's current length
    #[verifier::external_body] pub fn create_reader(&self) -> (r: ReaderV) ensures r.rlen() == self.rlen() { unimplemented!() }
}
pub proof fn lemma_elem_inside(index: int, stored_len: int, s: int)
    requires 0 <= index < stored_len, s > 0
    ensures index * s + s <= stored_len * s, 0 <= index * s
{
    assert(index * s + s <= stored_len * s) by (nonlinear_arith) requires 0 <= index < stored_len, s > 0;
    assert(0 <= index * s) by (nonlinear_arith) requires 0 <= index, s > 0;
}
pub fn slice_get_ref<T>(s: &[T], i: usize) -> (r: Option<&T>)
    ensures r == (if i < s@.len() { Some(&s@[i as int]) } else { None::<&T> })
{ if i < s.len() { Some(&s[i]) } else { None } }

// ---- compressed vector ----
pub open spec fn pp<T>() -> int { 16384int / (sz::<T>() as int) }
#[verifier::external_body]
pub fn per_page<T>() -> (r: usize) ensures r == pp::<T>(), r > 0 { unimplemented!() }
pub trait CompressionStrategy<T>: Sized {
    fn decode_page(data: &[u8], page: &Page) -> (r: Result<Vec<T>>)
        requires data@.len() == page.bytes
        ensures r matches Ok(v) ==> v@.len() == pcount(*page);
    // .expect(..) folded in: the real call panics on a damaged page (codec error), which is outside C20
    fn decompress_append_or_panic(data: &[u8], expected_len: usize, dst: &mut Vec<T>)
        ensures final(dst)@.len() == old(dst)@.len() + expected_len;
    fn decode_page_into_or_panic(data: &[u8], page: &Page, dst: &mut Vec<T>)
        requires data@.len() == page.bytes
        ensures final(dst)@.len() == pcount(*page);
}
pub fn vec_get<T>(v: &Vec<T>, i: usize) -> (r: Option<&T>)
    ensures r == (if i < v@.len() { Some(&v@[i as int]) } else { None::<&T> })
{ if i < v.len() { Some(&v[i]) } else { None } }
#[verifier::external_body]
pub fn sat_sub(a: usize, b: usize) -> (r: usize) ensures r == (if a >= b { a - b } else { 0 }) { a.saturating_sub(b) }
#[verifier::external_body] pub struct RegionC { _p: core::marker::PhantomData<u8> }
impl Clone for RegionC { #[verifier::external_body] fn clone(&self) -> Self { unimplemented!() } }
pub fn slice_range<T>(v: &Vec<T>, a: usize, b: usize) -> (r: &[T])
    requires a <= b, b <= v@.len()
    ensures r@ == v@.subrange(a as int, b as int)
{ vstd::slice::slice_subrange(v.as_slice(), a, b) }

// zerocopy: `T::ref_from_prefix(bytes).map(|(v, _)| v).ok()` on the slice `reader.prefixed(offset)`: reinterprets the first size_of::<T>() bytes.
// C20: they lie inside the region
#[verifier::external_body]
pub fn ref_from_prefix_at<'a, T>(bytes: SliceV) -> (r: Option<&'a T>)
    requires bytes.off() + sz::<T>() <= bytes.rlen()
{ unimplemented!() }
pub struct ZeroCopyStrategy<T> { pub p: core::marker::PhantomData<T> }
impl<T> RawStrategy<T> for ZeroCopyStrategy<T> {
    #[verifier::external_body] fn read_from_ptr(ptr: PtrV, byte_offset: usize) -> (r: T) { unimplemented!() }
}
