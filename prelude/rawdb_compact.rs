// Compaction shims (U9): what may be punched.
pub const FALLOC_FL_KEEP_SIZE: i32 = 0x01;
pub const FALLOC_FL_PUNCH_HOLE: i32 = 0x02;

pub open spec fn ceil_page(n: int) -> int { ((n + 4095) / 4096) * 4096 }

// C12.range: a byte range may be deallocated only if it is a promoted free extent, or lies inside the reserve of the
// region whose metadata WRITE guard is held, above that region's page-rounded length.
pub open spec fn punchable(w: World, start: int, len: int) -> bool {
    &&& start % 4096 == 0 && len % 4096 == 0 && len > 0
    &&& w.flushed
    &&& (w.holes.contains_key(start as usize) && w.holes[start as usize] == len)
        || (w.have_meta && start >= w.held.0 + ceil_page(w.held.1 as int) && start + len <= w.held.0 + w.held.2)
}

#[verifier::external_body] pub struct MetaW { _p: core::marker::PhantomData<u8> }
impl MetaW {
    pub uninterp spec fn v(&self) -> (usize, usize, usize);
    #[verifier::external_body] pub fn start(&self) -> (r: usize) ensures r == self.v().0 { unimplemented!() }
    #[verifier::external_body] pub fn len(&self) -> (r: usize) ensures r == self.v().1 { unimplemented!() }
    #[verifier::external_body] pub fn reserved(&self) -> (r: usize) ensures r == self.v().2 { unimplemented!() }
}
pub mod libc {
    pub type off_t = i64;
    pub use super::FALLOC_FL_KEEP_SIZE;
    pub use super::FALLOC_FL_PUNCH_HOLE;
}
impl Region {
    // RwLock WRITE guard on the metadata: no writer can change len while it is held (the one concurrency fact used).
    // RegionMetadata validity (U2): aligned start, aligned reserve, len <= reserved <= 1 TiB; extent inside the address space.
    #[verifier::external_body]
    pub fn meta_mut(&self, Tracked(w): Tracked<&mut World>) -> (g: MetaW)
        ensures final(w).tr == old(w).tr, final(w).have_meta, final(w).held == g.v(),
                final(w).flushed == old(w).flushed, final(w).holes == old(w).holes, final(w).punches == old(w).punches,
                final(w).file_len_changes == old(w).file_len_changes, final(w).promotes == old(w).promotes,
                g.v().0 % 4096 == 0, g.v().2 % 4096 == 0, g.v().1 <= g.v().2, g.v().2 <= 1024 * 1024 * 1024 * 1024, g.v().0 + g.v().2 <= i64::MAX
    { unimplemented!() }
}
impl FileG {
    #[verifier::external_body] pub fn as_raw_fd(&self) -> i32 { unimplemented!() }
}
// N11: `unsafe { libc::fallocate(fd, mode, off, len) }` -- the deallocation itself is trusted, its arguments are not
#[verifier::external_body]
pub fn sys_fallocate(fd: i32, mode: i32, offset: i64, len: i64, Tracked(w): Tracked<&mut World>) -> (r: i32)
    requires mode == FALLOC_FL_PUNCH_HOLE | FALLOC_FL_KEEP_SIZE,       // C12.keepsize: the file length never changes
             punchable(*old(w), offset as int, len as int)              // C12.range
    ensures final(w).tr == old(w).tr.push(Ev::Punch), final(w).punches == old(w).punches + 1,
            final(w).flushed == old(w).flushed, final(w).holes == old(w).holes, final(w).have_meta == old(w).have_meta,
            final(w).held == old(w).held, final(w).file_len_changes == old(w).file_len_changes, final(w).promotes == old(w).promotes
{ unimplemented!() }
#[verifier::external_body] pub fn last_os_error() -> IoErr { unimplemented!() }
#[verifier::external_body] pub struct RegionList { _p: core::marker::PhantomData<u8> }
impl RegionList {
    pub uninterp spec fn n(&self) -> nat;
    #[verifier::external_body] pub fn len(&self) -> (r: usize) ensures r == self.n(), r <= isize::MAX { unimplemented!() }
    #[verifier::external_body] pub fn get(&self, i: usize) -> (r: &Region) requires i < self.n() { unimplemented!() }
}
// `regions.index_to_region().iter().flatten().cloned().collect()`
#[verifier::external_body] pub fn collect_regions(db: &Database) -> RegionList { unimplemented!() }
// `layout.start_to_hole().iter().map(|(&start, &hole)| (start, hole)).collect()`: exactly the promoted holes
#[verifier::external_body]
pub fn collect_holes(layout: &LayoutG, Tracked(w): Tracked<&World>) -> (v: Vec<(usize, usize)>)
    ensures v@.len() <= isize::MAX, forall|i: int| 0 <= i < v@.len() ==> w.holes.contains_key(#[trigger] v@[i].0) && w.holes[v@[i].0] == v@[i].1 && v@[i].0 % 4096 == 0 && v@[i].1 % 4096 == 0 && v@[i].1 > 0 && v@[i].0 + v@[i].1 <= i64::MAX
{ unimplemented!() }
