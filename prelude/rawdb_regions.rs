// Shims for the rawdb Regions table (U4): the id map as a ghost map keyed by the id's bytes, region handles as opaque values
// that know their slot index, their current id and their handle count.
pub struct IdMap { pub ghost m: Map<Seq<u8>, usize> }
impl IdMap {
    // HashMap<String, usize>: get(..).copied(), contains_key, remove, insert (returns the previous value)
    #[verifier::external_body] pub fn get_copied(&self, k: &StrH) -> (r: Option<usize>)
        ensures r == (if self.m.contains_key(k.bytes()) { Some(self.m[k.bytes()]) } else { None::<usize> }) { unimplemented!() }
    #[verifier::external_body] pub fn contains_key(&self, k: &StrH) -> (r: bool) ensures r == self.m.contains_key(k.bytes()) { unimplemented!() }
    #[verifier::external_body] pub fn remove(&mut self, k: &StrH) ensures final(self).m == old(self).m.remove(k.bytes()) { unimplemented!() }
    #[verifier::external_body] pub fn insert(&mut self, k: StrH, v: usize) -> (r: Option<usize>)
        ensures final(self).m == old(self).m.insert(k.bytes(), v),
                r == (if old(self).m.contains_key(k.bytes()) { Some(old(self).m[k.bytes()]) } else { None::<usize> }) { unimplemented!() }
}
#[verifier::external_body] pub struct RegionT { _p: core::marker::PhantomData<u8> }
#[verifier::external_body] pub struct MetaT { _p: core::marker::PhantomData<u8> }
#[verifier::external_body] pub struct DatabaseT { _p: core::marker::PhantomData<u8> }
#[verifier::external_body] pub struct FileT { _p: core::marker::PhantomData<u8> }
#[verifier::external_body] pub struct MmapT { _p: core::marker::PhantomData<u8> }
impl Clone for RegionT { #[verifier::external_body] fn clone(&self) -> (r: Self) ensures r == *self { unimplemented!() } }
impl RegionT {
    pub uninterp spec fn idx(&self) -> usize;
    pub uninterp spec fn rid(&self) -> Seq<u8>;          // the id in the region's metadata at this moment
    pub uninterp spec fn refs(&self) -> nat;             // Arc strong count
    #[verifier::external_body] pub fn index(&self) -> (r: usize) ensures r == self.idx() { unimplemented!() }
    #[verifier::external_body] pub fn meta(&self) -> (m: MetaT) ensures m.id_v() == self.rid() { unimplemented!() }
    // Arc::strong_count(region.arc())
    #[verifier::external_body] pub fn strong_count(&self) -> (r: usize) ensures r == self.refs() { unimplemented!() }
    // Region::new(db, id, index, start, 0, PAGE_SIZE): RegionMetadata::new asserts start % PAGE_SIZE == 0 and a valid id (U2)
    #[verifier::external_body]
    pub fn new(db: &DatabaseT, id: StrH, index: usize, start: usize, len: usize, reserved: usize) -> (r: RegionT)
        requires start % 4096 == 0, reserved >= 4096, reserved % 4096 == 0, len <= reserved, 0 < id.bytes().len() <= 1024, id.no_control()
        ensures r.idx() == index, r.rid() == id.bytes()
    { unimplemented!() }
}
impl MetaT {
    pub uninterp spec fn id_v(&self) -> Seq<u8>;
    pub uninterp spec fn len_v(&self) -> usize;
    pub uninterp spec fn start_v(&self) -> usize;
    pub uninterp spec fn reserved_v(&self) -> usize;
    #[verifier::external_body] pub fn len(&self) -> (r: usize) ensures r == self.len_v() { unimplemented!() }
    #[verifier::external_body] pub fn start(&self) -> (r: usize) ensures r == self.start_v() { unimplemented!() }
    #[verifier::external_body] pub fn reserved(&self) -> (r: usize) ensures r == self.reserved_v() { unimplemented!() }
    #[verifier::external_body] pub fn id(&self) -> (r: &StrH) ensures r.bytes() == self.id_v() { unimplemented!() }
}
// index_to_region.iter().enumerate().find(|(_, opt)| opt.is_none()).map(|(index, _)| index).unwrap_or_else(|| index_to_region.len())
#[verifier::external_body]
pub fn first_free_slot(v: &Vec<Option<RegionT>>) -> (r: usize)
    ensures r <= v@.len(), r < v@.len() ==> v@[r as int] is None, forall|j: int| 0 <= j < r ==> v@[j] is Some
{ unimplemented!() }
// index_to_region.get_mut(i).and_then(Option::take)
#[verifier::external_body]
pub fn take_slot(v: &mut Vec<Option<RegionT>>, i: usize) -> (r: Option<RegionT>)
    ensures final(v)@.len() == old(v)@.len(),
            r == (if i < old(v)@.len() { old(v)@[i as int] } else { None::<RegionT> }),
            final(v)@ == (if i < old(v)@.len() { old(v)@.update(i as int, None::<RegionT>) } else { old(v)@ })
{ unimplemented!() }
// index_to_region.get(i).and_then(Option::as_ref)
#[verifier::external_body]
pub fn get_slot(v: &Vec<Option<RegionT>>, i: usize) -> (r: Option<&RegionT>)
    ensures r == (if i < v@.len() && v@[i as int] is Some { Some(&v@[i as int]->Some_0) } else { None::<&RegionT> })
{ unimplemented!() }
pub open spec fn zeros4096() -> Seq<u8> { Seq::new(4096, |i: int| 0u8) }
#[verifier::external_body] pub fn zero_page() -> (r: &'static [u8]) ensures r@.len() == 4096, r@ == zeros4096() { unimplemented!() }
// the metadata mapping's contents (one 4096-byte slot per region index) as a ghost byte string
pub tracked struct SW { pub ghost meta: Seq<u8> }
pub open spec fn slot_put(m: Seq<u8>, index: int, data: Seq<u8>) -> Seq<u8> { m.take(index * 4096) + data + m.skip(index * 4096 + 4096) }

// ---- Region::rename: the table and this region's metadata id as a ghost world ----
pub tracked struct RNW {
    pub ghost ids: Map<Seq<u8>, usize>,       // the Regions table (name -> slot)
    pub ghost my_id: Seq<u8>,                 // the id in this region's metadata
    pub ghost my_idx: usize,
}
#[verifier::external_body] pub struct RegionRn { _p: core::marker::PhantomData<u8> }
#[verifier::external_body] pub struct DatabaseRn { _p: core::marker::PhantomData<u8> }
#[verifier::external_body] pub struct RegionsGuard { _p: core::marker::PhantomData<u8> }
#[verifier::external_body] pub struct MetaGuardR { _p: core::marker::PhantomData<u8> }
#[verifier::external_body] pub struct MetaGuardW { _p: core::marker::PhantomData<u8> }
impl RegionRn {
    #[verifier::external_body] pub fn db(&self) -> DatabaseRn { unimplemented!() }
    #[verifier::external_body] pub fn index(&self) -> usize { unimplemented!() }
    #[verifier::external_body] pub fn meta(&self, Tracked(w): Tracked<&mut RNW>) -> (m: MetaGuardR) ensures *final(w) == *old(w), m.id_v() == old(w).my_id { unimplemented!() }
    #[verifier::external_body] pub fn meta_mut(&self, Tracked(w): Tracked<&mut RNW>) -> (m: MetaGuardW) ensures *final(w) == *old(w) { unimplemented!() }
}
impl MetaGuardR {
    pub uninterp spec fn id_v(&self) -> Seq<u8>;
    #[verifier::external_body] pub fn id(&self) -> (r: &StrH) ensures r.bytes() == self.id_v() { unimplemented!() }
}
impl MetaGuardW {
    // RegionMetadata::set_id: validate_id asserts a non-empty id of at most 1024 bytes without control characters (U2)
    #[verifier::external_body]
    pub fn set_id(&mut self, id: StrH, Tracked(w): Tracked<&mut RNW>)
        requires 0 < id.bytes().len() <= 1024, id.no_control()
        ensures *final(w) == (RNW { my_id: id.bytes(), ..*old(w) })
    { unimplemented!() }
    #[verifier::external_body] pub fn write_if_dirty(&self, index: usize, regions: &RegionsGuard) { unimplemented!() }
}
impl DatabaseRn { #[verifier::external_body] pub fn regions_mut(&self) -> RegionsGuard { unimplemented!() } }
impl RegionsGuard {
    // Regions::rename, the contract proved above on the real function
    #[verifier::external_body]
    pub fn rename(&mut self, old_id: &StrH, new_id: &StrH, Tracked(w): Tracked<&mut RNW>) -> (r: Result<()>)
        ensures r is Ok <==> old(w).ids.contains_key(old_id.bytes()) && !old(w).ids.contains_key(new_id.bytes()),
                r is Err ==> *final(w) == *old(w),
                r is Ok ==> *final(w) == (RNW { ids: old(w).ids.remove(old_id.bytes()).insert(new_id.bytes(), old(w).ids[old_id.bytes()]), ..*old(w) })
    { unimplemented!() }
}

// ---- Regions::fill (reopen): the metadata file as a ghost sequence of decoded slots ----
pub tracked struct FillW {
    pub ghost slots: Seq<Option<Seq<u8>>>,    // per 4096-byte slot of the metadata file: Some(id) when RegionMetadata::from_bytes accepts it (U2), None otherwise
    pub ghost file_len: nat,
    pub ghost stat_ok: bool,                  // whether File::metadata() succeeds (an I/O error is the only other way open can fail here)
}
impl Regions {
    #[verifier::external_body] pub fn file_len(&self, Tracked(w): Tracked<&mut FillW>) -> (r: Result<usize>) ensures *final(w) == *old(w), r is Ok <==> old(w).stat_ok, r matches Ok(n) ==> n == old(w).file_len { unimplemented!() }
}
impl MmapT {
    // &self.mmap[start..start + SIZE_OF_REGION_METADATA]: slot `start / 4096` of the metadata file
    #[verifier::external_body]
    pub fn slot(&self, start: usize, end: usize, Tracked(w): Tracked<&mut FillW>) -> (r: &[u8])
        requires start % 4096 == 0, end == start + 4096, end <= old(w).file_len
        ensures *final(w) == *old(w), r@.len() == 4096, slot_tag(r@) == Some((start / 4096) as nat)
    { unimplemented!() }
}
pub uninterp spec fn slot_tag(b: Seq<u8>) -> Option<nat>;      // which slot of the file these bytes are
#[verifier::external_body] pub struct RegionMetadataT { _p: core::marker::PhantomData<u8> }
impl RegionMetadataT {
    pub uninterp spec fn id_v(&self) -> Seq<u8>;
    // RegionMetadata::from_bytes (U2): Ok exactly for a valid slot; the id is the slot's id
    #[verifier::external_body]
    pub fn from_bytes(bytes: &[u8], Tracked(w): Tracked<&mut FillW>) -> (r: Result<RegionMetadataT>)
        requires slot_tag(bytes@) is Some, slot_tag(bytes@)->Some_0 < old(w).slots.len()
        ensures *final(w) == *old(w), r is Ok <==> old(w).slots[slot_tag(bytes@)->Some_0 as int] is Some,
                r matches Ok(m) ==> Some(m.id_v()) == old(w).slots[slot_tag(bytes@)->Some_0 as int]
    { unimplemented!() }
    #[verifier::external_body] pub fn id(&self) -> (r: &StrH) ensures r.bytes() == self.id_v() { unimplemented!() }
}
impl RegionT {
    // Region::from(db, index, meta)
    #[verifier::external_body]
    pub fn from(db: &DatabaseT, index: usize, meta: RegionMetadataT) -> (r: RegionT) ensures r.idx() == index, r.rid() == meta.id_v() { unimplemented!() }
}
// index_to_region.resize_with(n, Default::default)
#[verifier::external_body]
pub fn resize_none(v: &mut Vec<Option<RegionT>>, n: usize)
    requires old(v)@.len() == 0
    ensures final(v)@.len() == n, forall|i: int| 0 <= i < n ==> final(v)@[i] is None
{ unimplemented!() }
impl MmapT {
    pub uninterp spec fn mlen(&self) -> nat;
}
// write_to_mmap (U22): copies inside the mapping; out of bounds is a panic
#[verifier::external_body]
pub fn write_to_mmap(mmap: &MmapT, offset: usize, data: &[u8], Tracked(w): Tracked<&mut SW>)
    requires offset + data@.len() <= mmap.mlen(), old(w).meta.len() == mmap.mlen()
    ensures final(w).meta == old(w).meta.take(offset as int) + data@ + old(w).meta.skip(offset + data@.len())
{ unimplemented!() }
