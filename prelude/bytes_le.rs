// little-endian integer codecs of core (to_le_bytes / from_le_bytes): an assumed inverse pair of fixed width.
pub uninterp spec fn le64(x: u64) -> Seq<u8>;
pub uninterp spec fn un_le64(s: Seq<u8>) -> u64;
pub broadcast axiom fn le64_props(x: u64)
    ensures #![trigger le64(x)] le64(x).len() == 8, un_le64(le64(x)) == x;
pub broadcast axiom fn un_le64_props(s: Seq<u8>)
    requires s.len() == 8
    ensures #![trigger un_le64(s)] le64(un_le64(s)) == s;

// N7: (x as u64).to_le_bytes()
#[verifier::external_body]
pub fn u64_to_le_bytes(x: u64) -> (r: [u8; 8]) ensures r@ == le64(x) { x.to_le_bytes() }
// N7: u64::from_le_bytes(slice.try_into().unwrap())   (panics unless the slice has 8 bytes: that is the requires)
#[verifier::external_body]
pub fn u64_from_le_slice(s: &[u8]) -> (r: u64) requires s@.len() == 8 ensures r == un_le64(s@) { u64::from_le_bytes(s.try_into().unwrap()) }

pub uninterp spec fn le32(x: u32) -> Seq<u8>;
pub uninterp spec fn un_le32(s: Seq<u8>) -> u32;
pub broadcast axiom fn le32_props(x: u32)
    ensures #![trigger le32(x)] le32(x).len() == 4, un_le32(le32(x)) == x;
#[verifier::external_body]
pub fn u32_to_le_bytes(x: u32) -> (r: [u8; 4]) ensures r@ == le32(x) { x.to_le_bytes() }
#[verifier::external_body]
pub fn u32_from_le_slice(s: &[u8]) -> (r: u32) requires s@.len() == 4 ensures r == un_le32(s@) { u32::from_le_bytes(s.try_into().unwrap()) }

pub assume_specification<T: Clone> [<[T]>::to_vec] (s: &[T]) -> (r: Vec<T>) ensures r@ == s@;

// a slice never has more than isize::MAX elements (Rust language guarantee)
pub broadcast axiom fn axiom_slice_len_bound(s: &[u8])
    ensures #[trigger] s@.len() <= isize::MAX;
