// Shims for the scans over a stored compressed vector (U16): the data region as a ghost length, the decoded-page buffer
// and the delivery cursor in a world token. Codec calls are trusted (A_codec: on an undamaged page the decoder returns `count` values).
pub const HEADER_OFFSET: usize = 32;
pub uninterp spec fn sz<T>() -> nat;
pub open spec fn pp<T>() -> int { 16384int / (sz::<T>() as int) }
#[verifier::external_body]
pub fn per_page<T>() -> (r: usize) ensures r == pp::<T>(), r > 0 { unimplemented!() }

pub tracked struct CSW {
    pub ghost region_len: nat,            // length of the data region (= end of the last page)
    pub ghost delivered: nat,             // global index of the next element the scan has to deliver
    pub ghost buf_page: Option<nat>,      // which page the decoded buffer holds
    pub ghost last_read: (nat, nat),      // (offset, len) of the last region read
    pub ghost failed: bool,               // a codec call reported an error (damaged page)
    // buffered file scan (CompressedIoSource) only:
    pub ghost region_start: nat,          // absolute file offset of the region
    pub ghost file_pos: nat,              // the file handle's cursor (absolute)
    pub ghost buf_off: nat,               // region-relative offset the buffer's byte 0 was read from
    pub ghost buf_valid: nat,             // number of valid bytes in the buffer
}

#[verifier::external_body] pub struct ReaderC { _p: core::marker::PhantomData<u8> }
#[verifier::external_body] pub struct RegionC { _p: core::marker::PhantomData<u8> }
impl Clone for RegionC { #[verifier::external_body] fn clone(&self) -> Self { unimplemented!() } }
impl RegionC { #[verifier::external_body] pub fn create_reader(&self) -> ReaderC { unimplemented!() } }
impl ReaderC {
    // Reader::unchecked_read(offset, len): a slice of the mmap, region-relative; C20: inside the region's data
    #[verifier::external_body]
    pub fn unchecked_read(&self, offset: usize, len: usize, Tracked(w): Tracked<&mut CSW>) -> (r: &[u8])
        requires offset + len <= old(w).region_len
        ensures *final(w) == (CSW { last_read: (offset as nat, len as nat), ..*old(w) }), r@.len() == len
    { unimplemented!() }
}
pub trait CompressionStrategy<T>: Sized {
    // S::decode_page_into(data, page, dst).ok(): C08: the bytes decoded are the page's own bytes
    fn decode_page_into_opt(data: &[u8], page: &Page, dst: &mut Vec<T>, Tracked(w): Tracked<&mut CSW>) -> (r: Option<()>)
        requires old(w).last_read == (page.start as nat, page.bytes as nat), data@.len() == page.bytes
        ensures r is Some ==> final(dst)@.len() == pcount(*page) && *final(w) == *old(w),
                r is None ==> *final(w) == (CSW { failed: true, ..*old(w) });
}
// N11: `unsafe { ptr.add(i).read() }` on the decoded page: the i-th value of page `page_index`, i.e. global element page_index * PER_PAGE + i
#[verifier::external_body]
pub fn read_decoded<T>(buf: &Vec<T>, i: usize, Ghost(page_index): Ghost<int>, Tracked(w): Tracked<&mut CSW>) -> (r: T)
    requires i < buf@.len(), old(w).buf_page == Some(page_index as nat), old(w).delivered == page_index * pp::<T>() + i
    ensures *final(w) == (CSW { delivered: old(w).delivered + 1, ..*old(w) })
{ unimplemented!() }
#[verifier::external_body] pub fn unlikely(b: bool) -> (r: bool) ensures r == b { b }
pub fn vec_get<T>(v: &Vec<T>, i: usize) -> (r: Option<&T>)
    ensures r == (if i < v@.len() { Some(&v@[i as int]) } else { None::<&T> })
{ if i < v.len() { Some(&v[i]) } else { None } }

// ---- CompressedIoSource ----
pub const BUFFER_SIZE: usize = 524288;    // crate::BUFFER_SIZE = 512 * ONE_KIB (lib.rs); the unit U13 extracts the real constants
#[verifier::external_body] pub struct FileC { _p: core::marker::PhantomData<u8> }
#[verifier::external_body] pub struct MetaGuardC { _p: core::marker::PhantomData<u8> }
impl FileC {
    // file.seek(SeekFrom::Start(off)).unwrap()
    #[verifier::external_body]
    pub fn seek_start(&mut self, off: u64, Tracked(w): Tracked<&mut CSW>)
        ensures *final(w) == (CSW { file_pos: off as nat, ..*old(w) })
    { unimplemented!() }
    // file.read_exact(&mut buffer[..n]).unwrap(): C20: the bytes read lie inside the data region
    #[verifier::external_body]
    pub fn read_exact_prefix(&mut self, buf: &mut Vec<u8>, n: usize, Tracked(w): Tracked<&mut CSW>)
        requires n <= old(buf)@.len(), old(w).region_start <= old(w).file_pos, old(w).file_pos + n <= old(w).region_start + old(w).region_len
        ensures final(buf)@.len() == old(buf)@.len(),
                *final(w) == (CSW { file_pos: (old(w).file_pos + n) as nat, buf_off: (old(w).file_pos - old(w).region_start) as nat, buf_valid: n as nat, ..*old(w) })
    { unimplemented!() }
}
pub trait CompressionStrategyIo<T>: Sized {
    // `S::decode_page_into(&buffer[off..off + n], &page, dst).ok()`: C08: the bytes decoded are the page's own bytes, inside the valid part of the buffer
    fn decode_page_from_buf(buf: &Vec<u8>, off: usize, n: usize, page: &Page, dst: &mut Vec<T>, Tracked(w): Tracked<&mut CSW>) -> (r: Option<()>)
        requires off + n <= old(w).buf_valid, old(w).buf_valid <= buf@.len(), old(w).buf_off + off == page.start, n == page.bytes
        ensures r is Some ==> final(dst)@.len() == pcount(*page) && *final(w) == *old(w),
                r is None ==> *final(w) == (CSW { failed: true, ..*old(w) });
}
#[verifier::external_body] pub fn sat_sub(a: usize, b: usize) -> (r: usize) ensures r == (if a >= b { a - b } else { 0 }) { a.saturating_sub(b) }
