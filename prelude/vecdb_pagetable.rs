// Shims for the page table's persistence (U30): the `<name>_pages` region as a byte string in a world token.
// The Region contracts are the ones U3 / rac establish for rawdb's Region (C01: a region reads back exactly what was written).
pub tracked struct PT {
    pub ghost exists: bool,               // the page-table region has been created
    pub ghost table: Seq<u8>,             // its bytes
    pub ghost db_errs: nat,               // number of requests the region layer has refused / failed so far
}
#[verifier::external_body] pub struct RegionP { _p: core::marker::PhantomData<u8> }
impl Clone for RegionP { #[verifier::external_body] fn clone(&self) -> Self { unimplemented!() } }
#[verifier::external_body] pub struct DatabaseP { _p: core::marker::PhantomData<u8> }
impl DatabaseP {
    // Database::create_region_if_needed (U3): an existing region is returned as it is, a new one is empty
    #[verifier::external_body]
    pub fn create_region_if_needed(&self, name: &str, Tracked(w): Tracked<&mut PT>) -> (r: std::result::Result<RegionP, RawDbErr>)
        ensures r is Ok ==> final(w).exists && final(w).table == (if old(w).exists { old(w).table } else { Seq::<u8>::empty() }),
                r is Err ==> *final(w) == (PT { db_errs: old(w).db_errs + 1, ..*old(w) })
    { unimplemented!() }
}
impl RegionP {
    // Region::truncate_write(at, data) == write_with(data, Some(at), true): refused (WriteOutOfBounds) when at > len (U3);
    // afterwards the region holds its first `at` bytes followed by `data`
    #[verifier::external_body]
    pub fn truncate_write(&self, at: usize, data: &[u8], Tracked(w): Tracked<&mut PT>) -> (r: std::result::Result<(), RawDbErr>)
        requires at <= old(w).table.len()                                  // C13 / C20: never issue an out-of-bounds region write
        ensures r is Ok ==> final(w).table == old(w).table.take(at as int) + data@ && final(w).exists == old(w).exists,
                r is Err ==> *final(w) == *old(w)
    { unimplemented!() }
    // Region::write_at(data, at) == write_with(data, Some(at), false): positional write, keeps whatever lies behind the written range
    #[verifier::external_body]
    pub fn write_at(&self, data: &[u8], at: usize, Tracked(w): Tracked<&mut PT>) -> (r: std::result::Result<(), RawDbErr>)
        requires at <= old(w).table.len()
        ensures r is Ok ==> final(w).exists == old(w).exists && final(w).table == old(w).table.take(at as int) + data@
                    + (if at + data@.len() < old(w).table.len() { old(w).table.skip(at + data@.len()) } else { Seq::<u8>::empty() }),
                r is Err ==> *final(w) == *old(w)
    { unimplemented!() }
    // region.create_reader().read_all(): the region's valid bytes (U20 Reader::read_all)
    #[verifier::external_body]
    pub fn read_all_bytes(&self, Tracked(w): Tracked<&mut PT>) -> (r: Vec<u8>)
        ensures *final(w) == *old(w), r@ == old(w).table
    { unimplemented!() }
}
impl From<RawDbErr> for Error { #[verifier::external_body] fn from(e: RawDbErr) -> (r: Error) ensures r is RawDB { unimplemented!() } }

// N7: `x.to_bytes()` of vecdb's `Bytes for u64 / u32` and `u64::from_bytes(s)` / `u32::from_bytes(s)`: the little-endian codecs of
// exactly 8 / 4 bytes (Kani rt_u64 / rt_u32 prove this on the macro-expanded impls); here the assumed contract of the call.
#[verifier::external_body]
pub fn u64_from_bytes(b: &[u8]) -> (r: Result<u64>)
    ensures b@.len() == 8 ==> r == Ok::<u64, Error>(un_le64(b@)), b@.len() != 8 ==> r is Err
{ unimplemented!() }
#[verifier::external_body]
pub fn u32_from_bytes(b: &[u8]) -> (r: Result<u32>)
    ensures b@.len() == 4 ==> r == Ok::<u32, Error>(un_le32(b@)), b@.len() != 4 ==> r is Err
{ unimplemented!() }
// the fixed-width little-endian codec is a bijection: the 4-byte half of what bytes_le.rs states for 8 bytes
pub broadcast axiom fn un_le32_props(s: Seq<u8>)
    requires s.len() == 4
    ensures #![trigger un_le32(s)] le32(un_le32(s)) == s;

// N7: s.chunks(n).map(f).collect::<Result<Vec<_>>>(): f applied to the chunks in order (the last one may be short), the first
// failure ends the collection (chunks panics for n == 0: that is the requires)
pub open spec fn chunk_of(s: Seq<u8>, n: int, i: int) -> Seq<u8> {
    s.subrange(i * n, if (i + 1) * n <= s.len() { (i + 1) * n } else { s.len() as int })
}
pub open spec fn n_chunks(len: int, n: int) -> int { (len + n - 1) / n }
#[verifier::external_body]
pub fn chunks_try_collect<T, F: Fn(&[u8]) -> Result<T>>(s: &[u8], n: usize, f: F) -> (r: Result<Vec<T>>)
    requires n > 0, forall|c: &[u8]| #[trigger] f.requires((c,)),
    ensures r matches Ok(v) ==> v@.len() == n_chunks(s@.len() as int, n as int)
                && forall|i: int| #![trigger v@[i]] 0 <= i < v@.len() ==> (exists|c: &[u8]| c@ == chunk_of(s@, n as int, i) && #[trigger] f.ensures((c,), Ok::<T, Error>(v@[i]))),
            r is Err ==> exists|i: int, c: &[u8], e: Error| #![trigger f.ensures((c,), Err::<T, Error>(e)), chunk_of(s@, n as int, i)] 0 <= i < n_chunks(s@.len() as int, n as int) && c@ == chunk_of(s@, n as int, i) && f.ensures((c,), Err::<T, Error>(e))
{ unimplemented!() }
#[verifier::external_body] pub fn unlikely(b: bool) -> (r: bool) ensures r == b { b }
