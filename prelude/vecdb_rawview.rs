// Shims for the raw vector's in-memory operations (U12): the stored elements as a ghost sequence in a world token,
// BTreeSet / BTreeMap idioms that vstd does not specify (each body is the replaced std call chain: trusted std semantics).

pub tracked struct RV<T> {
    pub ghost disk: Seq<T>,           // what unchecked_read_at(i) returns for i below the stored length
}

#[verifier::external_body] pub struct ReaderV { _p: core::marker::PhantomData<u8> }
pub trait RawStrategy<T>: Sized { }

// s.last().copied()
#[verifier::external_body]
pub fn bset_last(s: &BTreeSet<usize>) -> (r: Option<usize>)
    ensures match r {
        Some(a) => s@.contains(a) && (forall|b: usize| s@.contains(b) ==> b <= a),
        None => forall|b: usize| !s@.contains(b),
    }
{ s.last().copied() }
// s.split_off(&k);   (the returned upper part is dropped)
#[verifier::external_body]
pub fn bset_truncate_from(s: &mut BTreeSet<usize>, k: usize)
    ensures forall|h: usize| final(s)@.contains(h) <==> (old(s)@.contains(h) && h < k)
{ s.split_off(&k); }
// m.last_key_value().map(|(&a, _)| a)
#[verifier::external_body]
pub fn bmap_last_key<V>(m: &BTreeMap<usize, V>) -> (r: Option<usize>)
    ensures match r {
        Some(a) => m@.contains_key(a) && (forall|b: usize| m@.contains_key(b) ==> b <= a),
        None => forall|b: usize| !m@.contains_key(b),
    }
{ m.last_key_value().map(|(&a, _)| a) }
// m.split_off(&k);
#[verifier::external_body]
pub fn bmap_truncate_from<V>(m: &mut BTreeMap<usize, V>, k: usize)
    ensures forall|a: usize| final(m)@.contains_key(a) <==> (old(m)@.contains_key(a) && a < k),
            forall|a: usize| final(m)@.contains_key(a) ==> final(m)@[a] == old(m)@[a]
{ m.split_off(&k); }
// s.pop_first()
#[verifier::external_body]
pub fn bset_pop_first(s: &mut BTreeSet<usize>) -> (r: Option<usize>)
    ensures match r {
        Some(a) => old(s)@.contains(a) && (forall|b: usize| old(s)@.contains(b) ==> a <= b) && final(s)@ == old(s)@.remove(a),
        None => old(s)@ == Set::<usize>::empty() && final(s)@ == old(s)@,
    }
{ s.pop_first() }
// s.first().copied()
#[verifier::external_body]
pub fn bset_first(s: &BTreeSet<usize>) -> (r: Option<usize>)
    ensures match r {
        Some(a) => s@.contains(a) && (forall|b: usize| s@.contains(b) ==> a <= b),
        None => s@ == Set::<usize>::empty(),
    }
{ s.first().copied() }
// slice.get(i).cloned() for plain-data values (N19: Clone of a stored value is a copy)
pub fn slice_get_copied<T: Copy>(s: &[T], i: usize) -> (r: Option<T>)
    ensures r == (if i < s@.len() { Some(s@[i as int]) } else { None::<T> })
{ if i < s.len() { Some(s[i]) } else { None } }
#[verifier::external_body] pub fn unlikely(b: bool) -> (r: bool) ensures r == b { b }
// VecIndex as far as these functions use it: a usize-like index type
pub trait VecIndexV: Sized + Copy {
    spec fn idx(self) -> usize;
    fn to_usize(self) -> (r: usize) ensures r == self.idx();
    fn from(u: usize) -> (r: Self) ensures r.idx() == u;
}
