// Raw undo shims (U12): the parsed change record as ghost state next to the exec value.
pub tracked struct RecW<T> {
    pub ghost disk: Seq<T>,                    // the stored elements as the file holds them
    pub ghost ps: usize,                       // the record: prev_stored_len, truncated_start, truncated values, previous push buffer,
    pub ghost ts: usize,                       // previous stamp, (index, previous value) pairs, previous deleted slots
    pub ghost tv: Seq<T>,
    pub ghost pp: Seq<T>,
    pub ghost stamp: Stamp,
    pub ghost mods: Seq<(usize, T)>,
    pub ghost ph: Set<usize>,
}
// a cloned collection equals its source (the Clone assumption of this unit)
#[verifier::external_body] pub fn bmap_clone<T: Copy>(m: &BTreeMap<usize, T>) -> (r: BTreeMap<usize, T>) ensures r@ == m@ { m.clone() }
// the value the pairs assign to index i: the last pair naming i wins (they are applied in order)
pub open spec fn mod_val<T>(mods: Seq<(usize, T)>, i: usize) -> Option<T>
    decreases mods.len()
{
    if mods.len() == 0 { None } else if mods.last().0 == i { Some(mods.last().1) } else { mod_val(mods.drop_last(), i) }
}
pub proof fn lemma_mod_val_step<T>(mods: Seq<(usize, T)>, j: int, i: usize)
    requires 0 <= j < mods.len()
    ensures mod_val(mods.take(j + 1), i) == (if mods[j].0 == i { Some(mods[j].1) } else { mod_val(mods.take(j), i) })
{
    assert(mods.take(j + 1).drop_last() =~= mods.take(j));
    assert(mods.take(j + 1).last() == mods[j]);
}
// `pairs.iter().find(|(idx, _)| *idx >= n)`
#[verifier::external_body]
pub fn find_index_at_or_above<T>(pairs: &Vec<(usize, T)>, n: usize) -> (r: Option<&(usize, T)>)
    ensures r is None <==> (forall|j: int| 0 <= j < pairs@.len() ==> (#[trigger] pairs@[j]).0 < n),
            r matches Some(p) ==> p.0 >= n
{ pairs.iter().find(|p| p.0 >= n) }
pub proof fn lemma_mod_val_some<T>(mods: Seq<(usize, T)>, i: usize)
    ensures mod_val(mods, i) is Some ==> exists|j: int| 0 <= j < mods.len() && (#[trigger] mods[j]).0 == i
    decreases mods.len()
{
    if mods.len() > 0 && mods.last().0 != i {
        lemma_mod_val_some(mods.drop_last(), i);
        if mod_val(mods.drop_last(), i) is Some {
            let j = choose|j: int| 0 <= j < mods.drop_last().len() && (#[trigger] mods.drop_last()[j]).0 == i;
            assert(mods[j].0 == i);
        }
    } else if mods.len() > 0 {
        assert(mods[mods.len() - 1].0 == i);
    }
}
// `set.last().filter(|&&h| h >= n)`: the greatest element, if it is at or above n
#[verifier::external_body]
pub fn bset_last_at_or_above(s: &BTreeSet<usize>, n: usize) -> (r: Option<&usize>)
    ensures r is None <==> (forall|h: usize| s@.contains(h) ==> h < n),
            r matches Some(h) ==> *h >= n && s@.contains(*h)
{ s.last().filter(|&&h| h >= n) }
