// Shims for removing a vector (U11): which of its regions are gone, as ghost flags in a world token.
pub tracked struct VW {
    pub ghost main_removed: bool,     // the vector's data region
    pub ghost aux_removed: bool,      // its auxiliary region (raw: `<name>_holes`, compressed: `<name>_pages`)
}
#[verifier::external_body] pub struct DatabaseV { _p: core::marker::PhantomData<u8> }
impl DatabaseV {
    // Database::remove_region(name): removing an auxiliary region is an effect; C13: only after the refusable main removal succeeded
    #[verifier::external_body]
    pub fn remove_region(&self, name: &StrH, Tracked(w): Tracked<&mut VW>) -> (r: std::result::Result<(), RawDbErr>)
        requires old(w).main_removed
        ensures final(w).main_removed == old(w).main_removed, r is Ok ==> final(w).aux_removed, r is Err ==> final(w).aux_removed == old(w).aux_removed
    { unimplemented!() }
}
impl From<RawDbErr> for Error { #[verifier::external_body] fn from(e: RawDbErr) -> (r: Error) ensures r is RawDB { unimplemented!() } }
pub trait RawStrategy<T>: Sized { }
