// Shims for the compressed vector's write() (U7): the data region as a ghost length plus the on-disk page table in a world token,
// the codec strategy at the trait level. All external: the Region contracts are the ones U3 / rac establish for rawdb's Region.
pub const HEADER_OFFSET: usize = 32;      // size_of::<HeaderInner>() with repr(C): layout checked by the Kani header harnesses
pub uninterp spec fn sz<T>() -> nat;      // size_of::<T>()
pub open spec fn pp<T>() -> int { 16384int / (sz::<T>() as int) }      // Self::PER_PAGE = MAX_UNCOMPRESSED_PAGE_SIZE / SIZE_OF_T

pub tracked struct CW {
    pub ghost region_len: nat,            // the data region's current length
    pub ghost disk_pages: Seq<Page>,      // what the page-table region holds
    pub ghost published: nat,             // the stored length readers see (SharedLen)
}

// size_of::<T>() and PER_PAGE as exec values
#[verifier::external_body]
pub fn size_of_t<T>() -> (r: usize) ensures r == sz::<T>(), r > 0, r <= 4096 { unimplemented!() }
#[verifier::external_body]
pub fn per_page<T>() -> (r: usize) ensures r == pp::<T>(), r > 0 { unimplemented!() }

pub trait CompressionStrategy<T>: Sized {
    // S::compress through Self::compress_page: ASSUMED to produce less than 2^28 bytes for a page of at most 16 KiB of values
    fn compress_page(chunk: &[T]) -> (r: Result<Vec<u8>>)
        requires chunk@.len() <= pp::<T>()
        ensures r matches Ok(v) ==> v@.len() < 0x1000_0000;
    // decode_page (strategy.rs): raw pages go through bytes_to_values(data, n), compressed ones are length-checked against n
    fn decode_page(data: &[u8], page: &Page) -> (r: Result<Vec<T>>)
        ensures r matches Ok(v) ==> v@.len() == pcount(*page);
    fn values_to_bytes(values: &[T]) -> (r: Vec<u8>)
        ensures r@.len() == values@.len() * sz::<T>();
}

#[verifier::external_body] pub struct RegionC { _p: core::marker::PhantomData<u8> }
impl Clone for RegionC { #[verifier::external_body] fn clone(&self) -> Self { unimplemented!() } }
#[verifier::external_body] pub struct ReaderC { _p: core::marker::PhantomData<u8> }
impl RegionC {
    // Region::truncate_write(at, data) == write_with(data, Some(at), true): refused (WriteOutOfBounds) when at > len
    #[verifier::external_body]
    pub fn truncate_write(&self, at: usize, data: &[u8], Tracked(w): Tracked<&mut CW>) -> (r: std::result::Result<(), RawDbErr>)
        requires at <= old(w).region_len                                   // C13 / C20: never issue an out-of-bounds region write
        // a region never exceeds MAX_RESERVED_SIZE = 1 TiB: RegionMetadata::set_reserved asserts it (U2), so an Ok return implies the bound
        ensures r is Ok ==> *final(w) == (CW { region_len: (at + data@.len()) as nat, ..*old(w) }) && at + data@.len() <= 0x100_0000_0000,
                r is Err ==> *final(w) == *old(w)
    { unimplemented!() }
    // Region::write_at(data, at) == write_with(data, Some(at), false): positional write, keeps whatever lies behind the written range
    #[verifier::external_body]
    pub fn write_at(&self, data: &[u8], at: usize, Tracked(w): Tracked<&mut CW>) -> (r: std::result::Result<(), RawDbErr>)
        requires at <= old(w).region_len
        ensures r is Ok ==> *final(w) == (CW { region_len: (if at + data@.len() > old(w).region_len { (at + data@.len()) as nat } else { old(w).region_len }), ..*old(w) }) && at + data@.len() <= 0x100_0000_0000,
                r is Err ==> *final(w) == *old(w)
    { unimplemented!() }
}
impl ReaderC {
    // Reader::unchecked_read(offset, len): a slice of the mmap; C20: must lie inside the region's data
    #[verifier::external_body]
    pub fn unchecked_read(&self, offset: usize, len: usize, Tracked(w): Tracked<&mut CW>) -> (r: &[u8])
        requires offset + len <= old(w).region_len
        ensures *final(w) == *old(w), r@.len() == len
    { unimplemented!() }
}
impl From<RawDbErr> for Error { #[verifier::external_body] fn from(e: RawDbErr) -> (r: Error) ensures r is RawDB { unimplemented!() } }

#[verifier::external_body]
pub fn take_vec<T>(v: &mut Vec<T>) -> (r: Vec<T>) ensures r@ == old(v)@, final(v)@.len() == 0 { std::mem::take(v) }
#[verifier::external_body] pub fn unlikely(b: bool) -> (r: bool) ensures r == b { b }
// values.chunks(n): the chunk starting at `from`
#[verifier::external_body]
pub fn chunk_at<T>(v: &Vec<T>, from: usize, n: usize) -> (r: &[T])
    requires from < v@.len(), n > 0
    ensures r@.len() == (if v@.len() - from < n { v@.len() - from } else { n as int }), r@ == v@.subrange(from as int, from + r@.len())
{ unimplemented!() }
#[verifier::external_body]
pub fn div_ceil(a: usize, b: usize) -> (r: usize) requires b > 0 ensures r <= a { a.div_ceil(b) }
// N7: v.get(i) / v.last() on a Vec (slice methods through Deref), written out
pub fn vec_get<T>(v: &Vec<T>, i: usize) -> (r: Option<&T>)
    ensures r == (if i < v@.len() { Some(&v@[i as int]) } else { None::<&T> })
{ if i < v.len() { Some(&v[i]) } else { None } }
pub fn vec_last<T>(v: &Vec<T>) -> (r: Option<&T>)
    ensures r == (if v@.len() > 0 { Some(&v@[v@.len() - 1]) } else { None::<&T> })
{ if v.len() > 0 { Some(&v[v.len() - 1]) } else { None } }
