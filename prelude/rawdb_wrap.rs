// Delegation shims (U25): the thin public entry points of rawdb, checked against the one function that does the work.
pub tracked struct WrapW {
    pub ghost ww: Seq<(Seq<u8>, Option<usize>, bool)>,   // write_with calls so far: (data, at, truncate)
    pub ghost looked_up: Seq<Seq<u8>>,                   // get_region lookups so far
    pub ghost removed: Seq<Seq<u8>>,                     // Region::remove calls so far (by region id)
    pub ghost removed_ok: Seq<bool>,                     // ... and whether each succeeded
    pub ghost exists: Set<Seq<u8>>,                      // region ids present in the table
    pub ghost meta_min: Seq<nat>,                        // Regions::set_min_len calls so far
    pub ghost data_min: Seq<nat>,                        // Database::set_min_len calls so far
}
#[verifier::external_body] pub struct Region { _p: core::marker::PhantomData<u8> }
#[verifier::external_body] pub struct Database { _p: core::marker::PhantomData<u8> }
#[verifier::external_body] pub struct RegionsG { _p: core::marker::PhantomData<u8> }
#[verifier::external_body] pub struct IoErr { _p: core::marker::PhantomData<u8> }
#[verifier::external_body] pub struct LockErr { _p: core::marker::PhantomData<u8> }
pub const PAGE_SIZE: usize = 4096;
pub const SIZE_OF_REGION_METADATA: usize = 4096;
impl Region {
    pub uninterp spec fn rid(&self) -> Seq<u8>;
    // Region::write_with (U3)
    #[verifier::external_body]
    pub fn write_with(&self, data: &[u8], at: Option<usize>, truncate: bool, Tracked(w): Tracked<&mut WrapW>) -> (r: Result<()>)
        ensures final(w).ww == old(w).ww.push((data@, at, truncate)), final(w).looked_up == old(w).looked_up, final(w).removed == old(w).removed, final(w).exists == old(w).exists
    { unimplemented!() }
    // Region::remove (U3): Err leaves the region in place
    #[verifier::external_body]
    pub fn remove(self, Tracked(w): Tracked<&mut WrapW>) -> (r: Result<()>)
        ensures final(w).removed == old(w).removed.push(self.rid()), final(w).removed_ok == old(w).removed_ok.push(r is Ok), final(w).ww == old(w).ww, final(w).looked_up == old(w).looked_up,
                r is Err ==> !(r->Err_0 is RegionNotFound)       // a region handle in hand is never "not found"
    { unimplemented!() }
}
impl Database {
    // the real get_region is one line over the table (Regions::get_from_id + clone)
    #[verifier::external_body]
    pub fn get_region(&self, id: &StrH, Tracked(w): Tracked<&mut WrapW>) -> (r: Option<Region>)
        ensures final(w).looked_up == old(w).looked_up.push(id.bytes()), final(w).ww == old(w).ww, final(w).removed == old(w).removed, final(w).removed_ok == old(w).removed_ok, final(w).exists == old(w).exists,
                r is Some <==> old(w).exists.contains(id.bytes()), r matches Some(g) ==> g.rid() == id.bytes()
    { unimplemented!() }
    #[verifier::external_body] pub fn regions_mut(&self) -> RegionsG { unimplemented!() }
    // Database::set_min_len (U22)
    #[verifier::external_body]
    pub fn set_min_len(&self, len: usize, Tracked(w): Tracked<&mut WrapW>) -> (r: Result<()>)
        ensures final(w).data_min == old(w).data_min.push(len as nat), final(w).meta_min == old(w).meta_min
    { unimplemented!() }
}
impl RegionsG {
    #[verifier::external_body]
    pub fn set_min_len(&mut self, len: usize, Tracked(w): Tracked<&mut WrapW>) -> (r: Result<()>)
        ensures final(w).meta_min == old(w).meta_min.push(len as nat), final(w).data_min == old(w).data_min
    { unimplemented!() }
}
