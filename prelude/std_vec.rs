// std::vec::Vec::retain -- documented std behaviour, phrased through what the closure *returned*
// (closure ensures are one-directional in Verus).
pub assume_specification<T, A: std::alloc::Allocator, F: FnMut(&T) -> bool> [std::vec::Vec::<T, A>::retain] (v: &mut Vec<T, A>, f: F)
    ensures
        final(v)@.len() <= old(v)@.len(),
        forall|i: int| 0 <= i < final(v)@.len() ==> old(v)@.contains(#[trigger] final(v)@[i]) && f.ensures((&final(v)@[i],), true),
        forall|x: T| #[trigger] old(v)@.contains(x) && !final(v)@.contains(x) ==> f.ensures((&x,), false),
        old(v)@.no_duplicates() ==> final(v)@.no_duplicates(),
;
