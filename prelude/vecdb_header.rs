// Shims for opening a stored vector (U15): the data region as (length, decoded header) in a world token.
pub tracked struct HW {
    pub ghost region_len: nat,
    pub ghost stored: Option<HeaderInner>,    // what the first 32 bytes of the region decode to (None: not a valid header)
    pub ghost header_writes: nat,
}
pub uninterp spec fn hdr_dec(b: Seq<u8>) -> Option<HeaderInner>;

#[verifier::external_body] pub struct Database { _p: core::marker::PhantomData<u8> }
#[verifier::external_body] pub struct RegionH { _p: core::marker::PhantomData<u8> }
#[verifier::external_body] pub struct MetaH { _p: core::marker::PhantomData<u8> }
#[verifier::external_body] pub struct ReaderH { _p: core::marker::PhantomData<u8> }
impl Database {
    #[verifier::external_body]
    pub fn create_region_if_needed(&self, name: &StrH, Tracked(w): Tracked<&mut HW>) -> (r: std::result::Result<RegionH, RawDbErr>)
        ensures *final(w) == *old(w)
    { unimplemented!() }
}
impl RegionH {
    #[verifier::external_body] pub fn meta(&self, Tracked(w): Tracked<&mut HW>) -> (m: MetaH) ensures *final(w) == *old(w), m.v_len() == old(w).region_len { unimplemented!() }
    #[verifier::external_body] pub fn create_reader(&self) -> ReaderH { unimplemented!() }
    // Region::write_at(data, 0): overwrites the start of the region (extends it when shorter)
    #[verifier::external_body]
    pub fn write_at(&self, data: &[u8], at: usize, Tracked(w): Tracked<&mut HW>) -> (r: std::result::Result<(), RawDbErr>)
        requires at == 0, data@.len() == 32
        ensures r is Ok ==> *final(w) == (HW { region_len: (if old(w).region_len < 32 { 32 } else { old(w).region_len }), stored: hdr_dec(data@), header_writes: old(w).header_writes + 1 }),
                r is Err ==> *final(w) == *old(w)
    { unimplemented!() }
}
impl MetaH {
    pub uninterp spec fn v_len(&self) -> usize;
    #[verifier::external_body] pub fn len(&self) -> (r: usize) ensures r == self.v_len() { unimplemented!() }
    #[verifier::external_body] pub fn id(&self) -> &StrH { unimplemented!() }
}
impl ReaderH {
    // the first `len` bytes of the region
    #[verifier::external_body]
    pub fn unchecked_read(&self, offset: usize, len: usize, Tracked(w): Tracked<&mut HW>) -> (r: &[u8])
        requires offset == 0, len == 32, len <= old(w).region_len
        ensures *final(w) == *old(w), r@.len() == 32, hdr_dec(r@) == old(w).stored
    { unimplemented!() }
}
impl HeaderInner {
    // to_bytes / from_bytes: the 32-byte header codec, proved to round-trip bit-precisely by the Kani header harnesses (C17)
    #[verifier::external_body]
    pub fn to_bytes(&self) -> (r: [u8; 32]) ensures hdr_dec(r@) == Some(*self) { unimplemented!() }
    #[verifier::external_body]
    pub fn from_bytes(bytes: &[u8]) -> (r: Result<HeaderInner>)
        ensures r is Ok <==> hdr_dec(bytes@) is Some, r matches Ok(h) ==> Some(h) == hdr_dec(bytes@)
    { unimplemented!() }
}
impl From<RawDbErr> for Error { #[verifier::external_body] fn from(e: RawDbErr) -> (r: Error) ensures r is RawDB { unimplemented!() } }
#[verifier::external_body] pub fn vec_region_name_with<I>(name: &StrH) -> StrH { unimplemented!() }
pub const HEADER_OFFSET: usize = 32;      // size_of::<HeaderInner>() (repr(C): 3 x u32 + u64 + u8, padded): checked by the Kani header harnesses

// ---- the layer above: raw / compressed import_with ----
#[verifier::external_body] pub struct PagesT { _p: core::marker::PhantomData<u8> }
impl PagesT {
    pub uninterp spec fn count_v(&self) -> usize;
    // Pages::import(db, "<name>_pages"): creates the page-table region when it does not exist -- an effect.
    // C13: only for a vector whose data region carries the header being asked for (i.e. after the refusable base import succeeded)
    #[verifier::external_body]
    pub fn import(db: &Database, name: &StrH, Ghost(version): Ghost<Version>, Ghost(format): Ghost<Format>, Tracked(w): Tracked<&mut HW>) -> (r: Result<PagesT>)
        requires old(w).region_len >= 32, old(w).stored matches Some(h) && h.header_version == HEADER_VERSION && h.vec_version == version && h.format == format
        ensures *final(w) == *old(w)
    { unimplemented!() }
}
