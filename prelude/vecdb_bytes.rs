// vecdb's `Bytes` impls for usize / u64 / Stamp as used by the change-record parser.
// Their behaviour (Ok(le value) iff exactly 8 bytes, else WrongLength) is what the Kani harnesses rt_usize / rt_u64 /
// rt_version_stamp prove on the macro-expanded impls; here it is the assumed contract of the call.
pub const SIZE_OF_U64: usize = 8;
// N7: usize::from_bytes(slice)
#[verifier::external_body]
pub fn usize_from_bytes(b: &[u8]) -> (r: Result<usize>)
    ensures b@.len() == 8 ==> r == Ok::<usize, Error>(un_le64(b@) as usize),
            b@.len() != 8 ==> r is Err
{ unimplemented!() }
// N7: Stamp::from_bytes(slice)
#[verifier::external_body]
pub fn stamp_from_bytes(b: &[u8]) -> (r: Result<Stamp>)
    ensures b@.len() == 8 ==> r is Ok && r->Ok_0.0 == un_le64(b@),
            b@.len() != 8 ==> r is Err
{ unimplemented!() }
// N7: slice.chunks(n).map(&mut f).collect::<Result<Vec<_>>>()   (chunks panics for n == 0: that is the requires)
#[verifier::external_body]
pub fn chunks_try_map<T, F: FnMut(&[u8]) -> Result<T>>(s: &[u8], n: usize, f: &mut F) -> (r: Result<Vec<T>>)
    requires n > 0,
             forall|c: &[u8]| c@.len() <= n ==> #[trigger] f.requires((c,)),
    ensures r matches Ok(v) ==> v@.len() == (s@.len() + n - 1) / n as int
{ unimplemented!() }

// ---- the serialising side of a change record (U8) ----
// N7: `x.to_bytes()` for the 8-byte fields (usize, Stamp): Kani rt_usize / rt_version_stamp prove these are the little-endian bytes
pub trait ToBytes8 { spec fn as_u64(&self) -> u64; fn to_bytes8(&self) -> (r: [u8; 8]) ensures r@ == le64(self.as_u64()); }
impl ToBytes8 for usize { open spec fn as_u64(&self) -> u64 { *self as u64 } #[verifier::external_body] fn to_bytes8(&self) -> (r: [u8; 8]) { (*self as u64).to_le_bytes() } }
impl ToBytes8 for Stamp { open spec fn as_u64(&self) -> u64 { self.0 } #[verifier::external_body] fn to_bytes8(&self) -> (r: [u8; 8]) { self.0.to_le_bytes() } }
// N7: `bytes.extend(arr)` with an 8-byte array
#[verifier::external_body] pub fn vec_extend_arr8(v: &mut Vec<u8>, a: [u8; 8]) ensures final(v)@ == old(v)@ + a@ { v.extend(a) }
// N15: `write_values(vals, &mut bytes)` — the strategy's `for v in vals { S::write_to_vec(v, buf) }`: appends size_of_t bytes per value
#[verifier::external_body]
pub fn call_write_values<T, F>(f: &F, vals: &[T], bytes: &mut Vec<u8>, Ghost(size_of_t): Ghost<usize>)
    ensures final(bytes)@.len() == old(bytes)@.len() + vals@.len() * size_of_t, final(bytes)@.take(old(bytes)@.len() as int) == old(bytes)@
{ unimplemented!() }
