// vecdb's `Bytes` impls for usize / u64 / Stamp as used by the change-record parser.
// Their behaviour (Ok(le value) iff exactly 8 bytes, else WrongLength) is what the Kani harnesses rt_usize / rt_u64 /
// rt_version_stamp prove on the macro-expanded impls; here it is the assumed contract of the call.
pub const SIZE_OF_U64: usize = 8;
// N7: usize::from_bytes(slice)
#[verifier::external_body]
pub fn usize_from_bytes(b: &[u8]) -> (r: Result<usize>)
    ensures b@.len() == 8 ==> r == Ok::<usize, Error>(un_le64(b@) as usize),
            b@.len() != 8 ==> r is Err
{ unimplemented!() }
// N7: Stamp::from_bytes(slice)
#[verifier::external_body]
pub fn stamp_from_bytes(b: &[u8]) -> (r: Result<Stamp>)
    ensures b@.len() == 8 ==> r is Ok && r->Ok_0.0 == un_le64(b@),
            b@.len() != 8 ==> r is Err
{ unimplemented!() }
// N7: slice.chunks(n).map(&mut f).collect::<Result<Vec<_>>>()   (chunks panics for n == 0: that is the requires)
#[verifier::external_body]
pub fn chunks_try_map<T, F: FnMut(&[u8]) -> Result<T>>(s: &[u8], n: usize, f: &mut F) -> (r: Result<Vec<T>>)
    requires n > 0,
             forall|c: &[u8]| c@.len() <= n ==> #[trigger] f.requires((c,)),
    ensures r matches Ok(v) ==> v@.len() == (s@.len() + n - 1) / n as int
{ unimplemented!() }
