// Shims for fold_dirty / try_fold_dirty (U21): peekable BTree range iterators as ghost sorted sequences, the file as a ghost
// sequence of stored elements, and a ghost log of the elements handed to the folding closure.
pub const HEADER_OFFSET: usize = 32;
pub uninterp spec fn sz<T>() -> nat;
#[verifier::external_body]
pub fn size_of_t<T>() -> (r: usize) ensures r == sz::<T>(), r > 0, r <= 4096 { unimplemented!() }

pub tracked struct FW<T> {
    pub ghost disk: Seq<T>,           // the stored elements as the file holds them
    pub ghost out: Seq<T>,            // the elements handed to the folding closure so far, in order
}
// N: ghost instrumentation of the delivery point `f(acc, val)`: records val in the log, returns it unchanged
#[verifier::external_body]
pub fn emit<T>(val: T, Tracked(w): Tracked<&mut FW<T>>) -> (r: T)
    ensures r == val, *final(w) == (FW { out: old(w).out.push(val), ..*old(w) })
{ val }

pub open spec fn increasing(s: Seq<usize>) -> bool { forall|i: int, j: int| 0 <= i < j < s.len() ==> s[i] < s[j] }

// `set.range(a..b).peekable()`: std panics when a > b
pub struct HoleIter { pub ghost rem: Seq<usize> }
impl HoleIter {
    pub open spec fn wf(&self, s: Set<usize>, lo: int, hi: int) -> bool {
        increasing(self.rem) && forall|x: usize| self.rem.contains(x) <==> (s.contains(x) && lo <= x < hi)
    }
    // hole_iter.peek().copied()
    #[verifier::external_body]
    pub fn peek_val(&mut self) -> (r: Option<usize>)
        ensures final(self).rem == old(self).rem, r == (if old(self).rem.len() > 0 { Some(old(self).rem[0]) } else { None::<usize> })
    { unimplemented!() }
    #[verifier::external_body]
    pub fn next(&mut self) -> (r: Option<usize>)
        ensures r == (if old(self).rem.len() > 0 { Some(old(self).rem[0]) } else { None::<usize> }),
                final(self).rem == (if old(self).rem.len() > 0 { old(self).rem.skip(1) } else { old(self).rem })
    { unimplemented!() }
}
#[verifier::external_body]
pub fn bset_range_peekable(s: &BTreeSet<usize>, a: usize, b: usize) -> (r: HoleIter)
    requires a <= b        // C08.nopanic C20.read: BTreeSet::range panics on an inverted range
    ensures r.wf(s@, a as int, b as int)
{ unimplemented!() }

// `map.range(a..b).peekable()`
pub struct UpdIter<T> { pub ghost keys: Seq<usize>, pub ghost vals: Seq<T> }
impl<T: Copy> UpdIter<T> {
    pub open spec fn wf(&self, m: Map<usize, T>, lo: int, hi: int) -> bool {
        &&& increasing(self.keys) && self.vals.len() == self.keys.len()
        &&& forall|x: usize| self.keys.contains(x) <==> (m.contains_key(x) && lo <= x < hi)
        &&& forall|i: int| 0 <= i < self.keys.len() ==> self.vals[i] == m[#[trigger] self.keys[i]]
    }
    // update_iter.peek().map(|&(&k, _)| k)
    #[verifier::external_body]
    pub fn peek_key(&mut self) -> (r: Option<usize>)
        ensures final(self).keys == old(self).keys, final(self).vals == old(self).vals,
                r == (if old(self).keys.len() > 0 { Some(old(self).keys[0]) } else { None::<usize> })
    { unimplemented!() }
    // update_iter.next();  (result dropped)
    #[verifier::external_body]
    pub fn next(&mut self)
        ensures final(self).keys == (if old(self).keys.len() > 0 { old(self).keys.skip(1) } else { old(self).keys }),
                final(self).vals == (if old(self).vals.len() > 0 { old(self).vals.skip(1) } else { old(self).vals })
    { unimplemented!() }
    // update_iter.next().unwrap().1.clone()   (unwrap panics on an exhausted iterator)
    #[verifier::external_body]
    pub fn next_value(&mut self) -> (r: T)
        requires old(self).keys.len() > 0
        ensures r == old(self).vals[0], final(self).keys == old(self).keys.skip(1), final(self).vals == old(self).vals.skip(1)
    { unimplemented!() }
}
#[verifier::external_body]
pub fn bmap_range_peekable<T: Copy>(m: &BTreeMap<usize, T>, a: usize, b: usize) -> (r: UpdIter<T>)
    requires a <= b        // C08.nopanic C20.read (F14)
    ensures r.wf(m@, a as int, b as int)
{ unimplemented!() }

#[verifier::external_body] pub struct ReaderF { _p: core::marker::PhantomData<u8> }
#[verifier::external_body] #[derive(Clone, Copy)] pub struct PtrF { _p: core::marker::PhantomData<u8> }
impl ReaderF {
    // reader.prefixed(HEADER_OFFSET).as_ptr(): pointer to element 0 of the stored data
    #[verifier::external_body] pub fn data_ptr(&self) -> PtrF { unimplemented!() }
    // N11: `unsafe { slice::from_raw_parts(reader.prefixed(HEADER_OFFSET).as_ptr().add(from * SIZE_OF_T) as *const T, n) }` (native layout:
    // the stored bytes are the values): elements from..from+n of the stored data, all of which must exist in the file (C20)
    #[verifier::external_body] pub fn native_slice<T>(&self, from: usize, n: usize, Tracked(w): Tracked<&mut FW<T>>) -> (r: &[T])
        requires from + n <= old(w).disk.len()        // C20.read C08.range: the bulk copy stays inside the stored data
        ensures *final(w) == *old(w), r@ == old(w).disk.subrange(from as int, from + n)
    { unimplemented!() }
}
pub trait RawStrategy<T>: Sized {
    // S::IS_NATIVE_LAYOUT
    fn is_native_layout() -> bool;
    // N11: `unsafe { S::read_from_ptr(data_ptr, byte_off) }`: C20: element byte_off / size of the stored data, which must exist in the file
    fn read_from_ptr(ptr: PtrF, byte_off: usize, Tracked(w): Tracked<&mut FW<T>>) -> (r: T)
        requires byte_off as int % (sz::<T>() as int) == 0, byte_off as int / (sz::<T>() as int) < old(w).disk.len()
        ensures *final(w) == *old(w), r == old(w).disk[byte_off as int / (sz::<T>() as int)];
}
pub fn slice_get_copied<T: Copy>(s: &[T], i: usize) -> (r: Option<T>)
    ensures r == (if i < s@.len() { Some(s@[i as int]) } else { None::<T> })
{ if i < s.len() { Some(s[i]) } else { None } }
#[verifier::external_body] pub fn unlikely(b: bool) -> (r: bool) ensures r == b { b }

// the non-deleted elements of a view, in order
pub open spec fn flat<T>(v: Seq<Option<T>>) -> Seq<T>
    decreases v.len()
{
    if v.len() == 0 { Seq::<T>::empty() } else { match v.last() { Some(x) => flat(v.drop_last()).push(x), None => flat(v.drop_last()) } }
}
pub proof fn lemma_flat_push<T>(v: Seq<Option<T>>, x: Option<T>)
    ensures flat(v.push(x)) == (match x { Some(y) => flat(v).push(y), None => flat(v) })
{
    assert(v.push(x).drop_last() =~= v);
}

// ---- the read dispatch layer (fold_range_at & co): sources and the push buffer ----
pub const MMAP_CROSSOVER_BYTES: usize = 1024 * 1024 * 1024;
// `pushed.as_ptr()` / `unsafe { ptr.add(i).read() }`: element i of the slice the pointer was taken from; it must exist (memory safety)
pub struct PtrS<T> { pub ghost s: Seq<T> }
#[verifier::external_body] pub fn slice_as_ptr<T>(s: &[T]) -> (r: PtrS<T>) ensures r.s == s@ { unimplemented!() }
impl<T: Copy> PtrS<T> {
    #[verifier::external_body] pub fn read_at(&self, i: usize) -> (r: T) requires i < self.s.len() ensures r == self.s[i as int] { unimplemented!() }
}
// `&pushed[a..b]`: std panics unless a <= b <= len
#[verifier::external_body] pub fn slice_sub<T>(s: &[T], a: usize, b: usize) -> (r: &[T]) requires a <= b, b <= s@.len() ensures r@ == s@.subrange(a as int, b as int) { unimplemented!() }
// N19: Vec::extend_from_slice on Copy values appends the slice's elements themselves
#[verifier::external_body] pub fn vec_extend_copy<T: Copy>(v: &mut Vec<T>, s: &[T]) ensures final(v)@ == old(v)@ + s@ { v.extend_from_slice(s) }

// ---- serialize_raw_changes (U21): which stored slots the record's tail reads from the file ----
// `a.keys().chain(b.keys()).copied().collect::<BTreeSet<usize>>()`
#[verifier::external_body]
pub fn keys_union<T>(a: &BTreeMap<usize, T>, b: &BTreeMap<usize, T>) -> (r: BTreeSet<usize>)
    ensures forall|k: usize| r@.contains(k) <==> (a@.contains_key(k) || b@.contains_key(k))
{ a.keys().chain(b.keys()).copied().collect() }
// `for &i in &set`: the elements in ascending order
#[verifier::external_body]
pub fn bset_sorted(s: &BTreeSet<usize>) -> (r: Vec<usize>)
    ensures forall|j: int| 0 <= j < r@.len() ==> s@.contains(#[trigger] r@[j])
{ s.iter().copied().collect() }
// `bytes.extend(n.to_bytes())`
#[verifier::external_body] pub fn extend_usize_bytes(v: &mut Vec<u8>, n: usize) ensures final(v)@.len() == old(v)@.len() + 8 { v.extend(n.to_le_bytes()) }
pub trait WriteStrategy<T>: Sized { fn write_to_vec(value: &T, buf: &mut Vec<u8>); }

// ---- shared by the raw (U21) and compressed (U29) read dispatch ----
// the part of the push buffer that from..to selects (positions are vector positions, the buffer starts at `stored`)
pub open spec fn pushed_part<T>(p: Seq<T>, stored: int, from: int, to: int) -> Seq<T> {
    let start = if from > stored { from } else { stored };
    let lo = start - stored;
    let hi = if to - stored < p.len() { to - stored } else { p.len() as int };
    if start >= to || lo >= hi { Seq::<T>::empty() } else { p.subrange(lo, hi) }
}
// from.min(len) and to.min(len), the second never below the first (an empty or inverted request delivers nothing)
pub open spec fn clampi(x: int, len: int) -> int { if x < len { x } else { len } }
pub open spec fn clampi2(from: int, to: int, len: int) -> int { if clampi(to, len) < clampi(from, len) { clampi(from, len) } else { clampi(to, len) } }
