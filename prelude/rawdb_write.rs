// Shims for Region::write_with / truncate (U3): the database as a ghost world. The Layout method contracts are the ones
// PROVED in U1, restated over the ghost extent maps; file / mmap / metadata-lock operations are assumed (OS, A_seq).
pub tracked struct DW {
    // the layout's four extent maps. Live regions other than `self` keep their extents (frame); `self` is filed under `my_key`
    pub ghost others: Map<usize, usize>,      // start -> reserved of every OTHER live region
    pub ghost my_key: Option<usize>,          // where the layout files this region (None while it is being moved)
    pub ghost h: Map<usize, usize>,           // promoted holes
    pub ghost p: Map<usize, usize>,           // pending holes
    pub ghost v: Map<usize, usize>,           // in-flight reservations
    pub ghost mine: Option<usize>,            // the reservation this call made for its own relocation, if any
    // this region's metadata (behind its RwLock)
    pub ghost start: usize, pub ghost len: usize, pub ghost reserved: usize,
    pub ghost file_len: nat,
    pub ghost lock_held: bool,                // a layout write guard is alive
    pub ghost wrote: nat,                     // db.write calls so far
    pub ghost registered: bool,               // the region is in the Regions table (id -> slot)
    pub ghost refs: nat,                      // Arc strong count of the region handle
    pub ghost slot: (usize, usize, usize),    // (start, len, reserved) as last written to the region's slot of the metadata file
    pub ghost dlo: usize, pub ghost dhi: usize,   // the region's dirty bounds (region-relative byte range the next flush will sync; empty when dlo >= dhi)
}

impl DW {
    // extents of all live regions as the layout computes them (region_ext reads `reserved` through the handle)
    pub open spec fn r(self) -> Map<usize, usize> {
        match self.my_key { Some(k) => self.others.insert(k, self.reserved), None => self.others }
    }
    pub open spec fn meta_ok(self) -> bool {
        self.start % 4096 == 0 && self.reserved % 4096 == 0 && self.reserved >= 4096 && self.len <= self.reserved && self.reserved <= 1024 * 1024 * 1024 * 1024
    }
    // the invariant protected by the layout lock
    pub open spec fn inv(self) -> bool {
        &&& self.meta_ok()
        &&& self.my_key == Some(self.start) && !self.others.contains_key(self.start)
        &&& tiles4(self.r(), self.h, self.p, self.v)
        &&& aligned_map(self.others) && aligned_map(self.h) && aligned_map(self.p) && aligned_map(self.v)
    }
    // the lock invariant when this region is not (or no longer) part of the layout
    pub open spec fn inv_gone(self) -> bool {
        &&& self.my_key is None
        &&& tiles4(self.others, self.h, self.p, self.v)
        &&& aligned_map(self.others) && aligned_map(self.h) && aligned_map(self.p) && aligned_map(self.v)
    }
    // every extent lies inside the data file
    pub open spec fn in_file(self) -> bool { all_below(self.r(), self.h, self.p, self.v, self.file_len as int) }
    pub open spec fn same_state(self, o: DW) -> bool {
        self.others == o.others && self.my_key == o.my_key && self.h == o.h && self.p == o.p && self.v == o.v
        && self.start == o.start && self.len == o.len && self.reserved == o.reserved && self.mine == o.mine
        && self.registered == o.registered
    }
    // where this call may put bytes: its own extent, or the reservation it holds for its relocation
    pub open spec fn may_write(self, at: usize, n: int) -> bool {
        n == 0 || (self.start <= at && at + n <= self.start + self.reserved)
        || (match self.mine { Some(b) => self.v.contains_key(b) && b <= at && at + n <= b + self.v[b], None => false })
    }
    pub open spec fn same_but_me(self, o: DW) -> bool { self.others == o.others }
}

#[verifier::external_body] pub struct Region { _p: core::marker::PhantomData<u8> }
#[verifier::external_body] pub struct Database { _p: core::marker::PhantomData<u8> }
#[verifier::external_body] pub struct LayoutW { _p: core::marker::PhantomData<u8> }
#[verifier::external_body] pub struct RegionsR { _p: core::marker::PhantomData<u8> }
#[verifier::external_body] pub struct MetaR { _p: core::marker::PhantomData<u8> }
#[verifier::external_body] pub struct MetaW { _p: core::marker::PhantomData<u8> }

impl Region {
    #[verifier::external_body] pub fn db(&self) -> Database { unimplemented!() }
    #[verifier::external_body] pub fn index(&self) -> usize { unimplemented!() }
    #[verifier::external_body]
    pub fn meta(&self, Tracked(w): Tracked<&mut DW>) -> (g: MetaR)
        ensures *final(w) == *old(w), g.v() == (old(w).start, old(w).len, old(w).reserved)
    { unimplemented!() }
    #[verifier::external_body]
    pub fn meta_mut(&self, Tracked(w): Tracked<&mut DW>) -> (g: MetaW) ensures *final(w) == *old(w) { unimplemented!() }
    // Arc::strong_count(self.arc())
    #[verifier::external_body]
    pub fn strong_count(&self, Tracked(w): Tracked<&mut DW>) -> (r: usize) ensures *final(w) == *old(w), r == old(w).refs { unimplemented!() }
    // Region::mark_dirty / mark_dirty_abs (U22): the recorded dirty range grows to include [offset, offset + len)
    #[verifier::external_body] pub fn mark_dirty_abs(&self, region_start: usize, abs_start: usize, len: usize, Tracked(w): Tracked<&mut DW>)
        requires abs_start >= region_start, abs_start - region_start + len <= usize::MAX
        ensures *final(w) == (DW { dlo: final(w).dlo, dhi: final(w).dhi, ..*old(w) }),
                final(w).dlo <= old(w).dlo, final(w).dlo <= abs_start - region_start, final(w).dhi >= old(w).dhi, final(w).dhi >= abs_start - region_start + len
    { unimplemented!() }
    #[verifier::external_body] pub fn mark_dirty(&self, offset: usize, len: usize, Tracked(w): Tracked<&mut DW>)
        requires offset + len <= usize::MAX
        ensures *final(w) == (DW { dlo: final(w).dlo, dhi: final(w).dhi, ..*old(w) }),
                final(w).dlo <= old(w).dlo, final(w).dlo <= offset, final(w).dhi >= old(w).dhi, final(w).dhi >= offset + len
    { unimplemented!() }
}
impl MetaR {
    pub uninterp spec fn v(&self) -> (usize, usize, usize);
    #[verifier::external_body] pub fn id(&self) -> (r: &StrH) { unimplemented!() }
    #[verifier::external_body] pub fn start(&self) -> (r: usize) ensures r == self.v().0 { unimplemented!() }
    #[verifier::external_body] pub fn len(&self) -> (r: usize) ensures r == self.v().1 { unimplemented!() }
    #[verifier::external_body] pub fn reserved(&self) -> (r: usize) ensures r == self.v().2 { unimplemented!() }
}
impl MetaW {
    // RegionMetadata setters: their assert!s (proved sufficient in U2) are the requires
    #[verifier::external_body]
    pub fn set_len(&mut self, len: usize, Tracked(w): Tracked<&mut DW>)
        requires len <= old(w).reserved
        ensures *final(w) == (DW { len: len, ..*old(w) })
    { unimplemented!() }
    #[verifier::external_body]
    pub fn set_reserved(&mut self, reserved: usize, Tracked(w): Tracked<&mut DW>)
        requires old(w).len <= reserved, reserved >= 4096, reserved % 4096 == 0, reserved <= 1024 * 1024 * 1024 * 1024
        ensures *final(w) == (DW { reserved: reserved, ..*old(w) })
    { unimplemented!() }
    #[verifier::external_body]
    pub fn set_start(&mut self, start: usize, Tracked(w): Tracked<&mut DW>)
        requires start % 4096 == 0
        ensures *final(w) == (DW { start: start, ..*old(w) })
    { unimplemented!() }
    // RegionMetadata::write_if_dirty: the slot of the metadata file gets the metadata as they stand now (every setter marks them dirty)
    #[verifier::external_body] pub fn write_if_dirty(&self, index: usize, regions: &RegionsR, Tracked(w): Tracked<&mut DW>)
        ensures *final(w) == (DW { slot: (old(w).start, old(w).len, old(w).reserved), ..*old(w) })
    { unimplemented!() }
}
#[verifier::external_body] pub struct RegionsW { _p: core::marker::PhantomData<u8> }
impl RegionsW {
    // Regions::remove (regions.rs): refuses while other handles exist (the caller's and the table's are expected), else clears the slot
    #[verifier::external_body]
    pub fn remove(&mut self, region: &Region, Tracked(w): Tracked<&mut DW>) -> (r: Result<()>)
        ensures r is Ok <==> (old(w).refs <= 2 && old(w).registered),
                r is Ok ==> *final(w) == (DW { registered: false, refs: (old(w).refs - 1) as nat, ..*old(w) }),
                r is Err ==> *final(w) == *old(w)
    { unimplemented!() }
    #[verifier::external_body]
    pub fn get_from_id_cloned(&self, id: &StrH, Tracked(w): Tracked<&mut DW>) -> (r: Option<Region>)
        ensures *final(w) == *old(w), r is Some <==> old(w).registered
    { unimplemented!() }
    // Regions::create (regions.rs): a fresh handle with (start, len 0, reserved PAGE_SIZE), filed under the id.
    // ASSUMED not to fail: its failure modes are an I/O error while growing the metadata file and an id collision that the caller excluded.
    #[verifier::external_body]
    pub fn create(&mut self, db: &Database, id: StrH, start: usize, Tracked(w): Tracked<&mut DW>) -> (r: Result<Region>)
        requires !old(w).registered, start % 4096 == 0, old(w).my_key is None
        ensures r is Ok, *final(w) == (DW { registered: true, start: start, len: 0, reserved: 4096, refs: 2, ..*old(w) })
    { unimplemented!() }
}
impl Database {
    #[verifier::external_body] pub fn regions(&self) -> RegionsR { unimplemented!() }
    #[verifier::external_body] pub fn regions_mut(&self) -> RegionsW { unimplemented!() }
    #[verifier::external_body]
    pub fn get_region(&self, id: &StrH, Tracked(w): Tracked<&mut DW>) -> (r: Option<Region>)
        ensures *final(w) == *old(w), r is Some <==> old(w).registered
    { unimplemented!() }
    // RwLock read guard on the layout (the world does not distinguish read from write guards)
    #[verifier::external_body]
    pub fn layout(&self, Tracked(w): Tracked<&mut DW>) -> (g: LayoutW)
        requires !old(w).lock_held
        ensures *final(w) == (DW { lock_held: true, ..*old(w) })
    { unimplemented!() }
    // RwLock write guard on the layout
    #[verifier::external_body]
    pub fn layout_mut(&self, Tracked(w): Tracked<&mut DW>) -> (g: LayoutW)
        requires !old(w).lock_held
        ensures *final(w) == (DW { lock_held: true, ..*old(w) })
    { unimplemented!() }
    // write_to_mmap: panics unless the range is inside the mapping; C01: the bytes must land inside this region's own extent
    #[verifier::external_body]
    pub fn write(&self, start: usize, data: &[u8], Tracked(w): Tracked<&mut DW>)
        requires start + data@.len() <= old(w).file_len,
                 old(w).may_write(start, data@.len() as int)                                   // C01.write-inside
        ensures *final(w) == (DW { wrote: old(w).wrote + 1, ..*old(w) })
    { unimplemented!() }
    // copies `len` bytes of this region to its new extent: both inside the file, ranges disjoint (else Err)
    #[verifier::external_body]
    pub fn copy(&self, src: usize, dst: usize, len: usize, Tracked(w): Tracked<&mut DW>) -> (r: Result<()>)
        requires src + len <= old(w).file_len, dst + len <= old(w).file_len, src + len <= dst || dst + len <= src || len == 0,
                 len <= old(w).reserved && src == old(w).start,
                 old(w).may_write(dst, len as int)                          // the target is the reservation made for this move
        ensures *final(w) == *old(w), r is Ok
    { unimplemented!() }
    #[verifier::external_body]
    pub fn set_min_len(&self, len: usize, Tracked(w): Tracked<&mut DW>) -> (r: Result<()>)
        requires !old(w).lock_held      // needs the mmap write lock: would deadlock under the layout lock (documented order)
        ensures r is Ok ==> final(w).file_len >= len && final(w).file_len >= old(w).file_len && *final(w) == (DW { file_len: final(w).file_len, ..*old(w) }),
                r is Err ==> *final(w) == *old(w)
    { unimplemented!() }
}
// releasing the layout write guard: the lock invariant must hold again
#[verifier::external_body]
pub fn drop_layout(g: LayoutW, Tracked(w): Tracked<&mut DW>)
    requires old(w).lock_held, old(w).inv() || old(w).inv_gone()
    ensures *final(w) == (DW { lock_held: false, ..*old(w) })
{ unimplemented!() }
#[verifier::external_body] pub fn drop<T>(t: T) { }

impl LayoutW {
    // ---- U1 contracts, restated over the ghost maps ----
    #[verifier::external_body]
    pub fn is_last_anything(&self, region: &Region, Tracked(w): Tracked<&mut DW>) -> (r: bool)
        requires old(w).lock_held, old(w).my_key is Some
        ensures *final(w) == *old(w),
                r ==> (forall|b: usize| old(w).others.contains_key(b) ==> b < old(w).my_key->Some_0)
                   && (forall|b: usize| old(w).h.contains_key(b) ==> b < old(w).my_key->Some_0)
                   && (forall|b: usize| old(w).p.contains_key(b) ==> b < old(w).my_key->Some_0)
                   && (forall|b: usize| old(w).v.contains_key(b) ==> b < old(w).my_key->Some_0)
    { unimplemented!() }
    #[verifier::external_body]
    pub fn get_hole(&self, start: usize, Tracked(w): Tracked<&mut DW>) -> (r: Option<usize>)
        requires old(w).lock_held
        ensures *final(w) == *old(w), r == (if old(w).h.contains_key(start) { Some(old(w).h[start]) } else { None::<usize> })
    { unimplemented!() }
    #[verifier::external_body]
    pub fn find_smallest_adequate_hole(&self, min_size: usize, Tracked(w): Tracked<&mut DW>) -> (r: Option<usize>)
        requires old(w).lock_held
        ensures *final(w) == *old(w),
                match r { Some(s) => old(w).h.contains_key(s) && old(w).h[s] >= min_size, None => forall|t: usize| old(w).h.contains_key(t) ==> old(w).h[t] < min_size }
    { unimplemented!() }
    #[verifier::external_body]
    pub fn remove_or_compress_hole(&mut self, start: usize, compress_by: usize, Tracked(w): Tracked<&mut DW>) -> (r: Result<()>)
        requires old(w).lock_held, separated(old(w).h), compress_by > 0,
                 old(w).h.contains_key(start) ==> old(w).h[start] >= compress_by       // U1: makes the HoleTooSmall path unreachable
        ensures r is Ok,
                *final(w) == (DW { h: compressed(old(w).h, start, compress_by), ..*old(w) })
    { unimplemented!() }
    #[verifier::external_body]
    pub fn reserve(&mut self, start: usize, reserved: usize, Tracked(w): Tracked<&mut DW>)
        requires old(w).lock_held, !old(w).v.contains_key(start), old(w).mine is None
        ensures *final(w) == (DW { v: old(w).v.insert(start, reserved), mine: Some(start), ..*old(w) })
    { unimplemented!() }
    #[verifier::external_body]
    pub fn take_reserved(&mut self, start: usize, Tracked(w): Tracked<&mut DW>) -> (r: Option<usize>)
        requires old(w).lock_held
        ensures r == (if old(w).v.contains_key(start) { Some(old(w).v[start]) } else { None::<usize> }),
                *final(w) == (DW { v: old(w).v.remove(start), mine: (if old(w).mine == Some(start) { None::<usize> } else { old(w).mine }), ..*old(w) })
    { unimplemented!() }
    #[verifier::external_body]
    pub fn layout_len(&self, Tracked(w): Tracked<&mut DW>) -> (r: usize)
        requires old(w).lock_held, pairwise_disjoint(old(w).r()), pairwise_disjoint(old(w).h), pairwise_disjoint(old(w).p), pairwise_disjoint(old(w).v)
        ensures *final(w) == *old(w),
                forall|a: usize| old(w).r().contains_key(a) ==> a + old(w).r()[a] <= r,
                forall|a: usize| old(w).h.contains_key(a) ==> a + old(w).h[a] <= r,
                forall|a: usize| old(w).p.contains_key(a) ==> a + old(w).p[a] <= r,
                forall|a: usize| old(w).v.contains_key(a) ==> a + old(w).v[a] <= r,
                r == 0 || cover4(old(w).r(), old(w).h, old(w).p, old(w).v, r - 1)
    { unimplemented!() }
    // U1 Layout::remove_region: the extent becomes a pending hole, the layout drops its handle
    #[verifier::external_body]
    pub fn remove_region(&mut self, region: &Region, Tracked(w): Tracked<&mut DW>) -> (r: Result<()>)
        requires old(w).lock_held
        ensures r is Ok <==> old(w).my_key == Some(old(w).start),
                r is Ok ==> *final(w) == (DW { my_key: None, p: old(w).p.insert(old(w).start, old(w).reserved), refs: (old(w).refs - 1) as nat, ..*old(w) }),
                r is Err ==> *final(w) == *old(w)
    { unimplemented!() }
    // U1 Layout::insert_region
    #[verifier::external_body]
    pub fn insert_region(&mut self, start: usize, region: &Region, Tracked(w): Tracked<&mut DW>)
        requires old(w).lock_held, old(w).my_key is None, !old(w).others.contains_key(start)
        ensures *final(w) == (DW { my_key: Some(start), refs: old(w).refs + 1, ..*old(w) })
    { unimplemented!() }
    // remove_region + insert_region: the old extent goes to `pending`, the region is filed under new_start
    #[verifier::external_body]
    pub fn move_region(&mut self, new_start: usize, region: &Region, Tracked(w): Tracked<&mut DW>) -> (r: Result<()>)
        requires old(w).lock_held, old(w).my_key == Some(old(w).start), !old(w).others.contains_key(new_start), new_start != old(w).start
        ensures r is Ok,
                *final(w) == (DW { my_key: Some(new_start), p: old(w).p.insert(old(w).start, old(w).reserved), ..*old(w) })
    { unimplemented!() }
}
