// N7 idiom shims over std::collections::std::collections::BTreeMap<usize, _>: each body is the replaced std iterator chain,
// each contract states that chain's documented semantics. external_body = trusted.

// m.entry(k).or_default().push(v)
#[verifier::external_body]
pub fn btree_entry_or_default_push(m: &mut std::collections::BTreeMap<usize, Vec<usize>>, k: usize, v: usize)
    ensures
        final(m)@.dom() == old(m)@.dom().insert(k),
        forall|j: usize| j != k && old(m)@.contains_key(j) ==> final(m)@[j] == old(m)@[j],
        final(m)@[k]@ == (if old(m)@.contains_key(k) { old(m)@[k]@ } else { Seq::<usize>::empty() }).push(v),
{
    m.entry(k).or_default().push(v);
}

// m.range(..k).next_back()   (greatest key strictly below k)
#[verifier::external_body]
pub fn btree_pred<'a, V>(m: &'a std::collections::BTreeMap<usize, V>, k: usize) -> (r: Option<(&'a usize, &'a V)>)
    ensures
        match r {
            Some((a, s)) => *a < k && m@.contains_key(*a) && m@[*a] == *s && forall|b: usize| m@.contains_key(b) && b < k ==> b <= *a,
            None => forall|b: usize| m@.contains_key(b) ==> b >= k,
        }
{
    m.range(..k).next_back()
}

// m.range(..=k).next_back()  (greatest key at or below k)
#[verifier::external_body]
pub fn btree_pred_incl<'a, V>(m: &'a std::collections::BTreeMap<usize, V>, k: usize) -> (r: Option<(&'a usize, &'a V)>)
    ensures
        match r {
            Some((a, s)) => *a <= k && m@.contains_key(*a) && m@[*a] == *s && forall|b: usize| m@.contains_key(b) && b <= k ==> b <= *a,
            None => forall|b: usize| m@.contains_key(b) ==> b > k,
        }
{
    m.range(..=k).next_back()
}

// m.range(k..).next()   (least key at or above k)
#[verifier::external_body]
pub fn btree_succ_ge<'a, V>(m: &'a std::collections::BTreeMap<usize, V>, k: usize) -> (r: Option<(&'a usize, &'a V)>)
    ensures
        match r {
            Some((a, s)) => *a >= k && m@.contains_key(*a) && m@[*a] == *s && forall|b: usize| m@.contains_key(b) && b >= k ==> b >= *a,
            None => forall|b: usize| m@.contains_key(b) ==> b < k,
        }
{
    m.range(k..).next()
}

// m.last_key_value()
#[verifier::external_body]
pub fn btree_last<'a, V>(m: &'a std::collections::BTreeMap<usize, V>) -> (r: Option<(&'a usize, &'a V)>)
    ensures
        match r {
            Some((a, s)) => m@.contains_key(*a) && m@[*a] == *s && forall|b: usize| m@.contains_key(b) ==> b <= *a,
            None => forall|b: usize| !m@.contains_key(b),
        }
{
    m.last_key_value()
}

// m.first_key_value()
#[verifier::external_body]
pub fn btree_first<'a, V>(m: &'a std::collections::BTreeMap<usize, V>) -> (r: Option<(&'a usize, &'a V)>)
    ensures
        match r {
            Some((a, s)) => m@.contains_key(*a) && m@[*a] == *s && forall|b: usize| m@.contains_key(b) ==> b >= *a,
            None => forall|b: usize| !m@.contains_key(b),
        }
{
    m.first_key_value()
}

// mem::take(&mut m)
#[verifier::external_body]
pub fn take_map<V>(m: &mut std::collections::BTreeMap<usize, V>) -> (r: std::collections::BTreeMap<usize, V>)
    ensures r@ == old(m)@, final(m)@ == Map::<usize, V>::empty()
{ std::mem::take(m) }

// into_iter().next() on an owned BTreeMap == pop_first (ascending key order)
#[verifier::external_body]
pub fn pop_first<V>(m: &mut std::collections::BTreeMap<usize, V>) -> (r: Option<(usize, V)>)
    ensures
        match r {
            Some((k, v)) => old(m)@.contains_key(k) && old(m)@[k] == v && final(m)@ == old(m)@.remove(k)
                && forall|j: usize| old(m)@.contains_key(j) ==> k <= j,
            None => old(m)@ == Map::<usize, V>::empty() && final(m)@ == old(m)@,
        }
{ m.pop_first() }
