// Shims for the raw vector's write() (U10): the rawdb Region as a ghost byte length in a world token, the value strategy
// at the trait level, iterator idioms. All external: the contracts are what U3 / rac establish for rawdb's Region.
pub const HEADER_OFFSET: usize = 32;      // size_of::<HeaderInner>() with repr(C): proved layout-compatible by the Kani header harnesses
pub uninterp spec fn sz<T>() -> nat;      // size_of::<T>()

pub tracked struct RW {
    pub ghost region_len: nat,            // the data region's current length (metadata len)
    pub ghost holes_len: nat,             // length of the `<name>_holes` region (8 bytes per stored deleted slot)
    pub ghost holes_exists: bool,         // whether the `<name>_holes` region exists (a re-import loads it when it does)
}

pub trait RawStrategy<T>: Sized {
    spec fn native() -> bool;
    // S::IS_NATIVE_LAYOUT
    fn is_native_layout() -> (r: bool) ensures r == Self::native();
    fn write_to_vec(value: &T, buf: &mut Vec<u8>)
        ensures final(buf)@.len() == old(buf)@.len() + sz::<T>();
}

#[verifier::external_body] pub struct RegionW { _p: core::marker::PhantomData<u8> }
#[verifier::external_body] pub struct MetaR { _p: core::marker::PhantomData<u8> }
#[verifier::external_body] pub struct DatabaseW { _p: core::marker::PhantomData<u8> }
#[verifier::external_body] pub struct HolesRegion { _p: core::marker::PhantomData<u8> }
impl MetaR {
    pub uninterp spec fn v_len(&self) -> usize;
    #[verifier::external_body] pub fn len(&self) -> (r: usize) ensures r == self.v_len() { unimplemented!() }
}
impl RegionW {
    #[verifier::external_body]
    pub fn meta(&self, Tracked(w): Tracked<&mut RW>) -> (m: MetaR) ensures m.v_len() == old(w).region_len, *final(w) == *old(w) { unimplemented!() }
    // Region::truncate_write(at, data) == write_with(data, Some(at), true): refused (WriteOutOfBounds) when at > len
    #[verifier::external_body]
    pub fn truncate_write(&self, at: usize, data: &[u8], Tracked(w): Tracked<&mut RW>) -> (r: std::result::Result<(), RawDbErr>)
        requires at <= old(w).region_len                                   // C13 / C20: never issue an out-of-bounds region write
        ensures r is Ok ==> final(w).region_len == at + data@.len(), r is Err ==> final(w).region_len == old(w).region_len, final(w).holes_len == old(w).holes_len, final(w).holes_exists == old(w).holes_exists
    { unimplemented!() }
    // Region::write_at(data, at): positional write, extends the region when it ends beyond the current length
    #[verifier::external_body]
    pub fn write_at(&self, data: &[u8], at: usize, Tracked(w): Tracked<&mut RW>) -> (r: std::result::Result<(), RawDbErr>)
        requires at <= old(w).region_len
        ensures r is Ok ==> final(w).region_len == (if at + data@.len() > old(w).region_len { at + data@.len() } else { old(w).region_len as int }),
                r is Err ==> final(w).region_len == old(w).region_len, final(w).holes_len == old(w).holes_len, final(w).holes_exists == old(w).holes_exists
    { unimplemented!() }
    // Region::truncate(from): refused (TruncateInvalid) when from > len
    #[verifier::external_body]
    pub fn truncate(&self, from: usize, Tracked(w): Tracked<&mut RW>) -> (r: std::result::Result<(), RawDbErr>)
        requires from <= old(w).region_len
        ensures r is Ok ==> final(w).region_len == from, r is Err ==> final(w).region_len == old(w).region_len, final(w).holes_len == old(w).holes_len, final(w).holes_exists == old(w).holes_exists
    { unimplemented!() }
    #[verifier::external_body] pub fn db(&self) -> DatabaseW { unimplemented!() }
}
impl DatabaseW {
    // the only two calls that create / delete the `<name>_holes` region (U3: create_region_if_needed, Region::remove)
    #[verifier::external_body] pub fn create_region_if_needed(&self, name: &StrH, Tracked(w): Tracked<&mut RW>) -> (r: std::result::Result<HolesRegion, RawDbErr>)
        ensures final(w).region_len == old(w).region_len, final(w).holes_len == old(w).holes_len, final(w).holes_exists == (old(w).holes_exists || r is Ok) { unimplemented!() }
    #[verifier::external_body] pub fn remove_region(&self, name: &StrH, Tracked(w): Tracked<&mut RW>) -> (r: std::result::Result<(), RawDbErr>)
        ensures final(w).region_len == old(w).region_len, final(w).holes_len == old(w).holes_len, final(w).holes_exists == (old(w).holes_exists && r is Err) { unimplemented!() }
}
impl HolesRegion {
    // the auxiliary region is rewritten from offset 0: always in bounds; truncate_write also cuts the region to the new contents
    #[verifier::external_body] pub fn truncate_write(&self, at: usize, data: &[u8], Tracked(w): Tracked<&mut RW>) -> (r: std::result::Result<(), RawDbErr>)
        requires at == 0
        ensures final(w).region_len == old(w).region_len, final(w).holes_exists == old(w).holes_exists, r is Ok ==> final(w).holes_len == data@.len(), r is Err ==> final(w).holes_len == old(w).holes_len, final(w).holes_exists == old(w).holes_exists
    { unimplemented!() }
    // Region::write_at(data, 0): overwrites in place and keeps whatever lies behind the new contents
    #[verifier::external_body] pub fn write_at(&self, data: &[u8], at: usize, Tracked(w): Tracked<&mut RW>) -> (r: std::result::Result<(), RawDbErr>)
        requires at == 0
        ensures final(w).region_len == old(w).region_len, final(w).holes_exists == old(w).holes_exists,
                r is Ok ==> final(w).holes_len == (if data@.len() > old(w).holes_len { data@.len() as nat } else { old(w).holes_len }), r is Err ==> final(w).holes_len == old(w).holes_len, final(w).holes_exists == old(w).holes_exists
    { unimplemented!() }
}
impl From<RawDbErr> for Error { #[verifier::external_body] fn from(e: RawDbErr) -> (r: Error) ensures r is RawDB { unimplemented!() } }

// N11: `unsafe { slice::from_raw_parts(taken.as_ptr() as *const u8, taken.len() * SIZE_OF_T) }` (native layout: the buffer's own bytes)
#[verifier::external_body]
pub fn native_bytes<T>(v: &Vec<T>) -> (r: &[u8]) ensures r@.len() == v@.len() * sz::<T>() { unimplemented!() }
// size_of::<T>() as an exec value
#[verifier::external_body]
pub fn size_of_t<T>() -> (r: usize) ensures r == sz::<T>(), r > 0, r <= 4096 { unimplemented!() }
// N7: `for i in holes { bytes.extend(i.to_bytes()); }`
#[verifier::external_body]
pub fn holes_to_bytes(holes: &std::collections::BTreeSet<usize>) -> (r: Vec<u8>) ensures r@.len() == holes@.len() * 8 { unimplemented!() }
// N7: region.batch_write_each(updated.into_iter().map(|(i, v)| (i * SIZE + HEADER, v)), SIZE, S::write_to_slice): every slot must lie inside the region
#[verifier::external_body]
pub fn batch_write_updated<T>(region: &RegionW, updated: std::collections::BTreeMap<usize, T>, size: usize, Tracked(w): Tracked<&mut RW>)
    requires forall|i: usize| updated@.contains_key(i) ==> i * size + HEADER_OFFSET + size <= old(w).region_len
    ensures *final(w) == *old(w)
{ unimplemented!() }
// mem::take on a Vec
#[verifier::external_body]
pub fn take_vec<T>(v: &mut Vec<T>) -> (r: Vec<T>) ensures r@ == old(v)@, final(v)@.len() == 0 { std::mem::take(v) }

#[verifier::external_body] pub fn unlikely(b: bool) -> (r: bool) ensures r == b { b }
