// Shims for the default methods of ReadableVec (U28): the implementor's required methods as a trait over an abstract content.
pub trait ReadOps<T>: Sized {
    // what a reader of the vector gets, in order (deleted slots of raw vectors already skipped)
    spec fn items(&self) -> Seq<T>;
    // AnyVec::len
    fn len(&self) -> (r: usize) ensures r == self.items().len();
    // the required method every vector type implements (raw: U21; compressed: U16/U20; lazy: bounded): appends items[from.min(len) .. to.min(len)]
    fn read_into_at(&self, from: usize, to: usize, buf: &mut Vec<T>)
        ensures final(buf)@ == old(buf)@ + self.items().subrange(clampr(from as int, self.items().len() as int), clampr2(from as int, to as int, self.items().len() as int));
}
pub open spec fn clampr(x: int, len: int) -> int { if x < len { x } else { len } }
pub open spec fn clampr2(from: int, to: int, len: int) -> int { if clampr(to, len) < clampr(from, len) { clampr(from, len) } else { clampr(to, len) } }
pub struct ReadH<T, V> { pub v: V, pub t: core::marker::PhantomData<T> }
impl<T, V: ReadOps<T>> ReadH<T, V> {
    pub fn len(&self) -> (r: usize) ensures r == self.v.items().len() { self.v.len() }
    pub fn read_into_at(&self, from: usize, to: usize, buf: &mut Vec<T>)
        ensures final(buf)@ == old(buf)@ + self.v.items().subrange(clampr(from as int, self.v.items().len() as int), clampr2(from as int, to as int, self.v.items().len() as int))
    { self.v.read_into_at(from, to, buf) }
}
// N15: `self.for_each_range_dyn_at(index, index + 1, &mut |v| result = Some(v)); result` — the last value delivered for that one-element range
#[verifier::external_body]
pub fn last_of_range<T, V: ReadOps<T>>(h: &ReadH<T, V>, from: usize, to: usize) -> (r: Option<T>)
    ensures r == (if clampr(from as int, h.v.items().len() as int) < clampr2(from as int, to as int, h.v.items().len() as int) { Some(h.v.items()[clampr2(from as int, to as int, h.v.items().len() as int) - 1]) } else { None::<T> })
{ unimplemented!() }
// Vec::with_capacity panics ("capacity overflow") when the capacity exceeds isize::MAX bytes
pub uninterp spec fn sz<T>() -> nat;
#[verifier::external_body]
pub fn vec_with_capacity_h<T>(n: usize) -> (r: Vec<T>)
    requires n * sz::<T>() <= 0x7fff_ffff_ffff_ffff        // C08.nopanic
    ensures r@.len() == 0
{ Vec::with_capacity(n) }
