// rawdb `Region` as seen from Layout (N9): an opaque Arc handle. Its metadata sits behind a RwLock; Layout
// methods only *read* it, so within one Layout method the metadata is a function of the handle
// (assumption A_seq: no concurrent writer of this region's metadata while the layout lock is held).
#[verifier::external_body]
pub struct Region { _p: core::marker::PhantomData<usize> }

#[verifier::external_body]
pub struct MetaRead { _p: core::marker::PhantomData<usize> }

impl Region {
    pub uninterp spec fn idx(&self) -> usize;
    pub uninterp spec fn m_start(&self) -> usize;
    pub uninterp spec fn m_len(&self) -> usize;
    pub uninterp spec fn m_reserved(&self) -> usize;

    #[verifier::external_body]
    pub fn index(&self) -> (r: usize) ensures r == self.idx() { unimplemented!() }

    // RwLock read guard on the metadata
    #[verifier::external_body]
    pub fn meta(&self) -> (g: MetaRead)
        ensures g.v_start() == self.m_start(), g.v_len() == self.m_len(), g.v_reserved() == self.m_reserved()
    { unimplemented!() }
}

impl Clone for Region {
    // Arc::clone: the same handle
    #[verifier::external_body]
    fn clone(&self) -> (r: Self) ensures r == *self { unimplemented!() }
}

impl MetaRead {
    pub uninterp spec fn v_start(&self) -> usize;
    pub uninterp spec fn v_len(&self) -> usize;
    pub uninterp spec fn v_reserved(&self) -> usize;
    #[verifier::external_body]
    pub fn start(&self) -> (r: usize) ensures r == self.v_start() { unimplemented!() }
    #[verifier::external_body]
    pub fn len(&self) -> (r: usize) ensures r == self.v_len() { unimplemented!() }
    #[verifier::external_body]
    pub fn reserved(&self) -> (r: usize) ensures r == self.v_reserved() { unimplemented!() }
}

// rawdb::Error as far as Layout is concerned (constructor arguments are message payload only)
pub enum Error {
    RegionIndexMismatch,
    HoleTooSmall { hole_size: usize, requested: usize },
    Other,
}
pub type Result<T> = std::result::Result<T, Error>;

// `regions.index_to_region().iter().flatten().map(|r| (r.meta().start(), r.clone())).collect::<BTreeMap<_, _>>()`:
// every live region filed under its metadata start (later slots win on equal starts, as in BTreeMap::collect)
#[verifier::external_body] pub struct Regions { _p: core::marker::PhantomData<usize> }
impl Regions { pub uninterp spec fn by_start(&self) -> Map<usize, Region>; }
#[verifier::external_body]
pub fn collect_regions_by_start(regions: &Regions) -> (m: std::collections::BTreeMap<usize, Region>)
    ensures m@ == regions.by_start(), forall|s: usize| #[trigger] m@.contains_key(s) ==> m@[s].m_start() == s
{ unimplemented!() }
// the keys of a BTreeMap in iteration (ascending) order
#[verifier::external_body]
pub fn btree_keys_sorted<V>(m: &std::collections::BTreeMap<usize, V>) -> (k: Vec<usize>)
    ensures forall|i: int, j: int| 0 <= i < j < k@.len() ==> k@[i] < k@[j],
            forall|i: int| 0 <= i < k@.len() ==> m@.contains_key(#[trigger] k@[i]),
            forall|s: usize| m@.contains_key(s) ==> k@.contains(s),
{ unimplemented!() }
