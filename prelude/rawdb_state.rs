// N10: RegionState (an AtomicU8 behind &self) as an opaque cell; its value is not tracked in U2.
#[verifier::external_body]
pub struct RegionState { _p: core::marker::PhantomData<u8> }
impl RegionState {
    #[verifier::external_body] pub fn new_dirty() -> Self { unimplemented!() }
    #[verifier::external_body] pub fn new_clean() -> Self { unimplemented!() }
    #[verifier::external_body] pub fn set_needs_write(&self) { unimplemented!() }
}
// io::Error / TryLockError payloads of rawdb::Error
#[verifier::external_body] pub struct IoErr { _p: core::marker::PhantomData<u8> }
#[verifier::external_body] pub struct LockErr { _p: core::marker::PhantomData<u8> }
