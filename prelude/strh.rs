// String / &str as an opaque valid-UTF-8 byte string (N6: String => StrH, &str => &StrH). Only its bytes matter.
#[verifier::external_body]
pub struct StrH { s: String }
pub struct Utf8Err {}
pub uninterp spec fn is_utf8(s: Seq<u8>) -> bool;
impl StrH {
    pub uninterp spec fn bytes(&self) -> Seq<u8>;
    // no control characters (char::is_control) -- uninterpreted predicate over the bytes
    pub uninterp spec fn no_control(&self) -> bool;
    #[verifier::external_body]
    pub fn as_bytes(&self) -> (r: &[u8]) ensures r@ == self.bytes(), is_utf8(r@) { self.s.as_bytes() }
    #[verifier::external_body]
    pub fn len(&self) -> (r: usize) ensures r == self.bytes().len() { self.s.len() }
    #[verifier::external_body]
    pub fn is_empty(&self) -> (r: bool) ensures r == (self.bytes().len() == 0) { self.s.is_empty() }
    // s.chars(): a UTF-8 string of b bytes has between b/4 and b characters
    #[verifier::external_body]
    pub fn chars(&self) -> (r: CharsH) ensures r.b == self.bytes().len(), r.n <= r.b, r.b <= 4 * r.n { unimplemented!() }
    // s.chars().any(|c| c.is_control())
    #[verifier::external_body]
    pub fn has_control(&self) -> (r: bool) ensures r == !self.no_control() { self.s.chars().any(|c| c.is_control()) }
    // String::from_utf8: Ok(s) carries exactly the given bytes
    #[verifier::external_body]
    pub fn from_utf8(v: Vec<u8>) -> (r: std::result::Result<StrH, Utf8Err>) ensures r matches Ok(s) ==> s.bytes() == v@, r is Ok <==> is_utf8(v@)
    { match String::from_utf8(v) { Ok(s) => Ok(StrH { s }), Err(_) => Err(Utf8Err {}) } }
    // format!(..): message text is dropped (N8)
    #[verifier::external_body]
    pub fn msg() -> (r: StrH) { StrH { s: String::new() } }
    #[verifier::external_body]
    pub fn eq_str(&self, o: &StrH) -> (r: bool) ensures r == (self.bytes() == o.bytes()) { self.s == o.s }
    #[verifier::external_body]
    pub fn to_owned(&self) -> (r: StrH) ensures r.bytes() == self.bytes(), r.no_control() == self.no_control() { StrH { s: self.s.clone() } }
    #[verifier::external_body]
    pub fn to_string(&self) -> (r: StrH) ensures r.bytes() == self.bytes(), r.no_control() == self.no_control() { StrH { s: self.s.clone() } }
}
pub struct CharsH { pub ghost n: nat, pub ghost b: nat }
impl CharsH { #[verifier::external_body] pub fn count(self) -> (r: usize) ensures r == self.n { unimplemented!() } }
// a failed `assert!` in a function that refuses by panicking: control does not continue
#[verifier::external_body] pub fn refuse_by_panic() ensures false { panic!() }
impl Clone for StrH {
    #[verifier::external_body]
    fn clone(&self) -> (r: Self) ensures r.bytes() == self.bytes(), r.no_control() == self.no_control() { StrH { s: self.s.clone() } }
}
