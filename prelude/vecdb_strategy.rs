// Shims for the default methods of CompressionStrategy (U26): the per-format hooks as a trait, the unsafe bulk copy, chunk iteration.
pub const HEADER_OFFSET: usize = 32;
pub uninterp spec fn sz<T>() -> nat;
#[verifier::external_body] pub fn size_of_t<T>() -> (r: usize) ensures r == sz::<T>(), r > 0, r <= 4096 { unimplemented!() }
pub trait StratOps<T>: Sized {
    spec fn native() -> bool;
    // S::IS_NATIVE_LAYOUT
    fn is_native_layout() -> (r: bool) ensures r == Self::native();
    // ValueStrategy::read (the `Bytes` impls: Ok exactly for a slice of the value's size — Kani rt_* harnesses)
    fn read(bytes: &[u8]) -> (r: Result<T>) ensures bytes@.len() == sz::<T>() ==> r is Ok;
    fn write_to_vec(value: &T, buf: &mut Vec<u8>) ensures final(buf)@.len() == old(buf)@.len() + sz::<T>();
    // the codec hooks: format specific, no contract assumed
    fn decompress(bytes: &[u8], expected_len: usize) -> Result<Vec<T>>;
    fn decompress_into(bytes: &[u8], expected_len: usize, dst: &mut Vec<T>) -> Result<()>;
}
pub struct StratH<T, S> { pub t: core::marker::PhantomData<T>, pub s: core::marker::PhantomData<S> }
#[verifier::external_body] pub fn likely(b: bool) -> (r: bool) ensures r == b { b }
// N11: `unsafe { ptr::copy_nonoverlapping(bytes.as_ptr(), dst.as_mut_ptr() as *mut u8, n_bytes); dst.set_len(n) }` on an empty buffer with
// reserved capacity: the first n values are the bytes reinterpreted; the source must hold n_bytes (memory safety)
#[verifier::external_body]
pub fn native_fill<T>(bytes: &[u8], n_bytes: usize, dst: &mut Vec<T>, n: usize)
    requires n_bytes <= bytes@.len(), old(dst)@.len() == 0, n_bytes == n * sz::<T>()
    ensures final(dst)@.len() == n
{ unimplemented!() }
// N11: the mirror image in values_to_bytes
#[verifier::external_body]
pub fn native_dump<T>(values: &[T], bytes: &mut Vec<u8>, byte_len: usize)
    requires old(bytes)@.len() == 0, byte_len == values@.len() * sz::<T>()
    ensures final(bytes)@.len() == byte_len
{ unimplemented!() }
// `bytes.chunks_exact(n)`: the k-th chunk
#[verifier::external_body]
pub fn chunk_at(bytes: &[u8], n: usize, k: usize) -> (r: &[u8]) requires n > 0, (k + 1) * n <= bytes@.len() ensures r@.len() == n { unimplemented!() }
// size_of_val(values)
#[verifier::external_body] pub fn size_of_val_h<T>(values: &[T]) -> (r: usize) ensures r == values@.len() * sz::<T>() { unimplemented!() }
// ---- PcodecStrategy (U26): the pco library calls as opaque codecs ----
pub struct PcodecStrategy<T>(pub core::marker::PhantomData<T>);
#[verifier::external_body] pub struct PcoErrH { _p: core::marker::PhantomData<u8> }
pub struct ProgressH { pub n_processed: usize }
// simple_decompress(bytes) followed by T::from_inner_slice: some number of values, or an error
#[verifier::external_body] pub fn pco_simple_decompress<T>(bytes: &[u8]) -> (r: std::result::Result<Vec<T>, PcoErrH>) { unimplemented!() }
// N11: dst.spare_capacity_mut() reinterpreted as `expected_len` numbers, simple_decompress_into(bytes, that), dst.set_len(old_len + n_processed):
// the values decoded (at most expected_len) are appended behind what the buffer already held
#[verifier::external_body]
pub fn pco_decompress_into_spare<T>(bytes: &[u8], dst: &mut Vec<T>, expected_len: usize) -> (r: std::result::Result<ProgressH, PcoErrH>)
    ensures r matches Ok(p) ==> p.n_processed <= expected_len && final(dst)@.len() == old(dst)@.len() + p.n_processed,
            r is Err ==> final(dst)@.len() == old(dst)@.len()
{ unimplemented!() }
