// Background-task lifetime shims (U24). A task started by Database::run_bg borrows the DatabaseInner through a raw pointer
// without owning a strong reference: it is part of the holder's lifetime, and the directory locks must outlive it (C18).
pub tracked struct BgW {
    pub ghost running: nat,     // run_bg threads not yet joined
    pub ghost listed: nat,      // JoinHandles currently stored in DatabaseInner::bg_tasks
    pub ghost strong: nat,      // Arc strong count of the DatabaseInner (this handle included)
    pub ghost weak: nat,        // Weak<DatabaseInner> count (every Region holds one)
    pub ghost wake: bool,       // bg_sync flag: bg_sleep returns at once while it is set
}
#[verifier::external_body] pub struct IoErr { _p: core::marker::PhantomData<u8> }
#[verifier::external_body] pub struct LockErr { _p: core::marker::PhantomData<u8> }
#[verifier::external_body] pub struct ArcInner { _p: core::marker::PhantomData<u8> }
#[verifier::external_body] pub struct InnerRef { _p: core::marker::PhantomData<u8> }
#[verifier::external_body] pub struct JoinH { _p: core::marker::PhantomData<u8> }
#[verifier::external_body] pub struct PanicH { _p: core::marker::PhantomData<u8> }
pub struct Database(pub ArcInner);
// std::sync::Arc<DatabaseInner>: the counting functions, by their documented meaning
pub struct Arc {}
impl Arc {
    #[verifier::external_body] pub fn strong_count(a: &ArcInner, Tracked(w): Tracked<&mut BgW>) -> (r: usize) ensures *final(w) == *old(w), r == old(w).strong { unimplemented!() }
    #[verifier::external_body] pub fn weak_count(a: &ArcInner, Tracked(w): Tracked<&mut BgW>) -> (r: usize) ensures *final(w) == *old(w), r == old(w).weak { unimplemented!() }
    // Some only for a unique Arc: no other strong AND no weak reference
    #[verifier::external_body] pub fn get_mut(a: &mut ArcInner, Tracked(w): Tracked<&mut BgW>) -> (r: Option<InnerRef>) ensures *final(w) == *old(w), r is Some <==> old(w).strong == 1 && old(w).weak == 0 { unimplemented!() }
}
impl Database {
    // { let (m, cv) = &self.0.bg_sync; *m.lock() = true; cv.notify_all(); }   /   *self.0.bg_sync.0.lock() = false;
    #[verifier::external_body] pub fn bg_wake(&self, flag: bool, Tracked(w): Tracked<&mut BgW>)
        ensures final(w).wake == flag, final(w).running == old(w).running, final(w).listed == old(w).listed, final(w).strong == old(w).strong, final(w).weak == old(w).weak { unimplemented!() }
    // self.0.bg_tasks.lock().drain(..).collect(): every stored handle moves to the caller
    #[verifier::external_body] pub fn take_bg_handles(&self, Tracked(w): Tracked<&mut BgW>) -> (r: Vec<JoinH>)
        ensures r@.len() == old(w).listed, final(w).listed == 0, final(w).running == old(w).running, final(w).strong == old(w).strong, final(w).weak == old(w).weak, final(w).wake == old(w).wake { unimplemented!() }
}
impl JoinH {
    // JoinHandle::join: returns once the thread has ended. Dropping a JoinH instead detaches the thread: `running` stays.
    #[verifier::external_body] pub fn join(self, Tracked(w): Tracked<&mut BgW>) -> (r: std::result::Result<Result<()>, PanicH>)
        requires old(w).running > 0
        ensures final(w).running == old(w).running - 1, final(w).listed == old(w).listed, final(w).strong == old(w).strong, final(w).weak == old(w).weak, final(w).wake == old(w).wake { unimplemented!() }
}
// Result<_, Box<dyn Any + Send>>::unwrap() on a join result / std::panic::resume_unwind: propagate the task's panic (diverges)
#[verifier::external_body] pub fn join_unwrap(r: std::result::Result<Result<()>, PanicH>) -> (o: Result<()>) ensures r is Ok, r->Ok_0 == o { unimplemented!() }
#[verifier::external_body] pub fn resume_unwind_h(p: PanicH) ensures false { unimplemented!() }
// `for x in vec` is `let mut it = vec.into_iter(); while let Some(x) = it.next()`: next() on the remaining elements
#[verifier::external_body] pub fn vec_next<T>(v: &mut Vec<T>) -> (r: Option<T>)
    ensures r is None <==> old(v)@.len() == 0, r is Some ==> final(v)@.len() == old(v)@.len() - 1, r is None ==> final(v)@.len() == 0
{ unimplemented!() }
// ---- run_bg: the task's handle on the DatabaseInner must not be an owner ----
#[verifier::external_body] pub struct RawPtr { _p: core::marker::PhantomData<u8> }
#[verifier::external_body] pub struct ManuallyDropDb { _p: core::marker::PhantomData<u8> }
impl Arc {
    // the pointer inside the Arc: no effect on the counts
    #[verifier::external_body] pub fn as_ptr(a: &ArcInner, Tracked(w): Tracked<&mut BgW>) -> (r: RawPtr) ensures *final(w) == *old(w) { unimplemented!() }
    // consumes the handle without releasing its count
    #[verifier::external_body] pub fn into_raw(a: ArcInner, Tracked(w): Tracked<&mut BgW>) -> (r: RawPtr) ensures *final(w) == *old(w) { unimplemented!() }
    // a handle on the same allocation; the count is not touched (which is why the caller must not let it drop)
    #[verifier::external_body] pub fn from_raw(p: RawPtr, Tracked(w): Tracked<&mut BgW>) -> (r: ArcInner) ensures *final(w) == *old(w) { unimplemented!() }
}
impl ArcInner {
    // Arc::clone: one more owner
    #[verifier::external_body] pub fn clone(&self, Tracked(w): Tracked<&mut BgW>) -> (r: ArcInner)
        ensures final(w).strong == old(w).strong + 1, final(w).weak == old(w).weak, final(w).running == old(w).running, final(w).listed == old(w).listed, final(w).wake == old(w).wake { unimplemented!() }
}
// ManuallyDrop::new(db): the wrapped handle is never dropped, so its count is never released
#[verifier::external_body] pub fn manually_drop_new(db: Database) -> ManuallyDropDb { unimplemented!() }
impl Database {
    // self.0.bg_tasks.lock().push(thread::spawn(move || f(&db))): one more running task, one more stored handle
    #[verifier::external_body] pub fn spawn_and_list<F>(&self, db: ManuallyDropDb, f: F, Tracked(w): Tracked<&mut BgW>)
        ensures final(w).running == old(w).running + 1, final(w).listed == old(w).listed + 1, final(w).strong == old(w).strong, final(w).weak == old(w).weak, final(w).wake == old(w).wake { unimplemented!() }
}
