// Shims for the rawdb mmap write primitives (U22): the mapping as a ghost length.
#[verifier::external_body] pub struct MmapH { _p: core::marker::PhantomData<u8> }
impl MmapH {
    pub uninterp spec fn mlen(&self) -> usize;
    #[verifier::external_body]
    pub fn range(&self, a: usize, b: usize) -> (r: &[u8]) requires a <= b, b <= self.mlen() ensures r@.len() == b - a { unimplemented!() }
}
impl MmapH {
    #[verifier::external_body] pub fn len(&self) -> (r: usize) ensures r == self.mlen() { unimplemented!() }
    // N11: `unsafe { copy_nonoverlapping(data.as_ptr(), (mmap.as_ptr() as *mut u8).add(offset), data.len()) }`: the target lies inside the mapping
    #[verifier::external_body]
    pub fn raw_copy_into(&self, offset: usize, data: &[u8]) requires offset + data@.len() <= self.mlen() { unimplemented!() }
}
#[verifier::external_body] pub struct DatabaseW { _p: core::marker::PhantomData<u8> }
impl DatabaseW {
    pub uninterp spec fn file_len(&self) -> usize;     // the mapping covers the data file
    #[verifier::external_body] pub fn mmap(&self) -> (g: MmapH) ensures g.mlen() == self.file_len() { unimplemented!() }
}
