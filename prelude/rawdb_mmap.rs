// Shims for the rawdb mmap write primitives (U22): the mapping as a ghost length.
#[verifier::external_body] pub struct MmapH { _p: core::marker::PhantomData<u8> }
impl MmapH {
    pub uninterp spec fn mlen(&self) -> usize;
    #[verifier::external_body]
    pub fn range(&self, a: usize, b: usize) -> (r: &[u8]) requires a <= b, b <= self.mlen() ensures r@.len() == b - a { unimplemented!() }
}
impl MmapH {
    #[verifier::external_body] pub fn len(&self) -> (r: usize) ensures r == self.mlen() { unimplemented!() }
    // N11: `unsafe { copy_nonoverlapping(data.as_ptr(), (mmap.as_ptr() as *mut u8).add(offset), data.len()) }`: the target lies inside the mapping
    #[verifier::external_body]
    pub fn raw_copy_into(&self, offset: usize, data: &[u8]) requires offset + data@.len() <= self.mlen() { unimplemented!() }
}
#[verifier::external_body] pub struct DatabaseW { _p: core::marker::PhantomData<u8> }
impl DatabaseW {
    pub uninterp spec fn flen(&self) -> usize;     // the mapping covers the data file
    #[verifier::external_body] pub fn mmap(&self) -> (g: MmapH) ensures g.mlen() == self.flen() { unimplemented!() }
}

// ---- Database::set_min_len: the data file, the cached length and the mapping as a ghost world ----
pub tracked struct GW {
    pub ghost file_len: nat,          // real length of the data file
    pub ghost cached: nat,            // cached_file_len
    pub ghost mapped: nat,            // length of the current mapping
    pub ghost set_lens: nat,          // file.set_len calls so far
}
pub open spec fn ceil_page(n: int) -> int { ((n + 4095) / 4096) * 4096 }
#[verifier::external_body] pub struct FileG { _p: core::marker::PhantomData<u8> }
#[verifier::external_body] pub struct MmapG { _p: core::marker::PhantomData<u8> }
impl DatabaseW {
    // cached_file_len.load(Relaxed)
    #[verifier::external_body] pub fn file_len(&self, Tracked(w): Tracked<&mut GW>) -> (r: usize) ensures *final(w) == *old(w), r == old(w).cached { unimplemented!() }
    #[verifier::external_body] pub fn mmap_mut(&self) -> MmapG { unimplemented!() }
    #[verifier::external_body] pub fn file_mut(&self) -> FileG { unimplemented!() }
    // self.0.cached_file_len.store(v, Relaxed)
    #[verifier::external_body] pub fn store_cached_file_len(&self, v: usize, Tracked(w): Tracked<&mut GW>) ensures *final(w) == (GW { cached: v as nat, ..*old(w) }) { unimplemented!() }
    // Database::ceil_number_to_page_size_multiple, the contract proved in U9
    #[verifier::external_body]
    pub fn ceil_number_to_page_size_multiple(num: usize) -> (r: usize) requires num <= usize::MAX - 4095 ensures r == ceil_page(num as int), r >= num, r % 4096 == 0, r < num + 4096 { unimplemented!() }
}
impl FileG {
    // File::set_len: C02 / C12: the data file is never shortened
    #[verifier::external_body]
    pub fn set_len(&self, len: u64, Tracked(w): Tracked<&mut GW>) -> (r: std::result::Result<(), IoErr>)
        requires len >= old(w).file_len
        ensures r is Ok ==> *final(w) == (GW { file_len: len as nat, set_lens: old(w).set_lens + 1, ..*old(w) }), r is Err ==> *final(w) == *old(w)
    { unimplemented!() }
}
// create_mmap(&file): maps the whole file
#[verifier::external_body]
pub fn create_mmap(file: &FileG, Tracked(w): Tracked<&mut GW>) -> (r: std::result::Result<MmapG, IoErr>)
    ensures r is Ok ==> *final(w) == (GW { mapped: old(w).file_len, ..*old(w) }), r is Err ==> *final(w) == *old(w)
{ unimplemented!() }
impl From<IoErr> for Error { #[verifier::external_body] fn from(e: IoErr) -> (r: Error) { unimplemented!() } }

// ---- Region::batch_write_each ----
#[verifier::external_body] pub struct RegionB { _p: core::marker::PhantomData<u8> }
#[verifier::external_body] pub struct MetaB { _p: core::marker::PhantomData<u8> }
#[verifier::external_body] pub struct SliceMutB { _p: core::marker::PhantomData<u8> }
#[verifier::external_body] #[derive(Clone, Copy)] pub struct PtrB { _p: core::marker::PhantomData<u8> }
impl RegionB {
    pub uninterp spec fn start_v(&self) -> usize;
    pub uninterp spec fn len_v(&self) -> usize;
    #[verifier::external_body] pub fn meta(&self) -> (m: MetaB) ensures m.start_v() == self.start_v(), m.len_v() == self.len_v() { unimplemented!() }
    pub uninterp spec fn db_flen(&self) -> usize;
    #[verifier::external_body] pub fn db(&self) -> (d: DatabaseW) ensures d.flen() == self.db_flen() { unimplemented!() }
    // the dirty-bounds mutex update at the end of batch_write_each
    #[verifier::external_body] pub fn merge_dirty_bounds(&self, lo: usize, hi: usize) { unimplemented!() }
}
impl MetaB {
    pub uninterp spec fn start_v(&self) -> usize;
    pub uninterp spec fn len_v(&self) -> usize;
    #[verifier::external_body] pub fn start(&self) -> (r: usize) ensures r == self.start_v() { unimplemented!() }
    #[verifier::external_body] pub fn len(&self) -> (r: usize) ensures r == self.len_v() { unimplemented!() }
}
impl MmapH {
    #[verifier::external_body] pub fn as_mut_ptr_b(&self) -> (p: PtrB) ensures p.mlen() == self.mlen() { unimplemented!() }
}
impl PtrB {
    pub uninterp spec fn mlen(&self) -> usize;
    // N11: `unsafe { slice::from_raw_parts_mut(ptr.add(abs), n) }`: a mutable window of the mapping.
    // C01: it lies inside [lo, hi), the writing region's own data; C20: inside the mapping
    #[verifier::external_body]
    pub fn window_mut(self, abs: usize, n: usize, Ghost(lo): Ghost<int>, Ghost(hi): Ghost<int>) -> (r: SliceMutB)
        requires abs + n <= self.mlen(), lo <= abs, abs + n <= hi
    { unimplemented!() }
}
// write_fn(&value, slice): the caller's serialiser, not reasoned about
#[verifier::external_body] pub fn call_write_fn<T, F>(f: &F, value: &T, slice: SliceMutB) { unimplemented!() }
#[verifier::external_body] pub fn drop<T>(t: T) { }

// ---- the region's dirty bounds (U22): the mutex-protected (lo, hi) pair as ghost state ----
pub tracked struct DirtyW { pub ghost lo: usize, pub ghost hi: usize }
pub struct BoundsG { pub v0: usize, pub v1: usize }
impl RegionB {
    // self.0.dirty_bounds.lock() ... writes through the guard: read the pair / store the pair (A_seq: one holder of the mutex at a time)
    #[verifier::external_body] pub fn bounds_get(&self, Tracked(w): Tracked<&mut DirtyW>) -> (r: BoundsG) ensures *final(w) == *old(w), r.v0 == old(w).lo, r.v1 == old(w).hi { unimplemented!() }
    #[verifier::external_body] pub fn bounds_set(&self, lo: usize, hi: usize, Tracked(w): Tracked<&mut DirtyW>) ensures final(w).lo == lo, final(w).hi == hi { unimplemented!() }
}
