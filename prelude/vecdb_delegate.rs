// Shims for the import entry points of a wrapper vector (U23): which inner entry point was called, as a ghost code.
pub tracked struct DelW { pub ghost called: int }
#[verifier::external_body] pub struct Database { _p: core::marker::PhantomData<u8> }
#[verifier::external_body] pub struct ImportOptions { _p: core::marker::PhantomData<u8> }
impl Clone for ImportOptions { #[verifier::external_body] fn clone(&self) -> Self { unimplemented!() } }
impl Copy for ImportOptions {}
// the inner vector's four entry points (1 import, 2 import_with, 3 forced_import, 4 forced_import_with)
pub trait ImportableVec: Sized {
    fn import(db: &Database, name: &StrH, version: Version, Tracked(w): Tracked<&mut DelW>) -> (r: Result<Self>) ensures final(w).called == 1;
    fn import_with(options: ImportOptions, Tracked(w): Tracked<&mut DelW>) -> (r: Result<Self>) ensures final(w).called == 2;
    fn forced_import(db: &Database, name: &StrH, version: Version, Tracked(w): Tracked<&mut DelW>) -> (r: Result<Self>) ensures final(w).called == 3;
    fn forced_import_with(options: ImportOptions, Tracked(w): Tracked<&mut DelW>) -> (r: Result<Self>) ensures final(w).called == 4;
}
