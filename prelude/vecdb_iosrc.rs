// Shims for the buffered file scan of a raw vector (U13): the data file as a cursor inside the region's data, in a world token.
pub const HEADER_OFFSET: usize = 32;
pub open spec fn sz<T>() -> nat { vstd::layout::size_of::<T>() }      // size_of::<T>() (vstd's layout model; align_of is a different function there)
#[verifier::external_body]
pub fn size_of_t<T>() -> (r: usize) ensures r == sz::<T>(), r > 0, r <= 4096 { unimplemented!() }   // Self::SIZE_OF_T; element sizes are assumed to be 1..=4096

pub tracked struct IW {
    pub ghost data_start: nat,        // region start + header: offset of element 0 in the data file
    pub ghost data_end: nat,          // data_start + stored_len * size: end of the region's valid data
    pub ghost file_pos: nat,          // the file handle's cursor
    pub ghost buf_base: nat,          // file offset the buffer's byte 0 was read from
    pub ghost next: nat,              // file offset of the next element the scan has to deliver
}

#[verifier::external_body] pub struct FileH { _p: core::marker::PhantomData<u8> }
#[verifier::external_body] pub struct MetaGuardH { _p: core::marker::PhantomData<u8> }
#[verifier::external_body] pub struct RegionIo { _p: core::marker::PhantomData<u8> }
pub trait RawStrategy<T>: Sized {
    // N11: `unsafe { S::read_from_ptr(buffer.as_ptr(), pos) }`: decodes the value whose bytes start at buffer[pos].
    // C20 / C08: the bytes must be the next element of the scan -- inside the valid part of the buffer, element-aligned in the file
    fn read_from_buf(buf: &Vec<u8>, pos: usize, valid: usize, Tracked(w): Tracked<&mut IW>) -> (r: T)
        requires
            pos + sz::<T>() <= valid, valid <= buf@.len(),
            old(w).buf_base + pos == old(w).next,
            old(w).next >= old(w).data_start, (old(w).next - old(w).data_start) % (sz::<T>() as int) == 0,
            old(w).next + sz::<T>() <= old(w).data_end,
        ensures *final(w) == (IW { next: (old(w).next + sz::<T>()) as nat, ..*old(w) });
}
impl RegionIo {
    // region.open_db_read_only_file().expect("open file")
    #[verifier::external_body] pub fn open_file_or_panic(&self) -> FileH { unimplemented!() }
    // the region's metadata read guard: the world's data_start is this region's start plus the header
    #[verifier::external_body] pub fn meta(&self, Tracked(w): Tracked<&mut IW>) -> (g: MetaGuardH) ensures *final(w) == *old(w), g.v_start() + HEADER_OFFSET == old(w).data_start { unimplemented!() }
}
impl MetaGuardH {
    pub uninterp spec fn v_start(&self) -> usize;
    #[verifier::external_body] pub fn start(&self) -> (r: usize) ensures r == self.v_start() { unimplemented!() }
}
impl FileH {
    // file.seek(SeekFrom::Start(off)).expect(..)
    #[verifier::external_body]
    pub fn seek_start(&mut self, off: u64, Tracked(w): Tracked<&mut IW>)
        ensures *final(w) == (IW { file_pos: off as nat, ..*old(w) })
    { unimplemented!() }
    // file.read_exact(&mut buffer[..n]).expect(..): C20: the bytes read lie inside the region's valid data
    #[verifier::external_body]
    pub fn read_exact_prefix(&mut self, buf: &mut Vec<u8>, n: usize, Tracked(w): Tracked<&mut IW>)
        requires n <= old(buf)@.len(), old(w).data_start <= old(w).file_pos, old(w).file_pos + n <= old(w).data_end
        ensures final(buf)@.len() == old(buf)@.len(), *final(w) == (IW { file_pos: (old(w).file_pos + n) as nat, buf_base: old(w).file_pos, ..*old(w) })
    { unimplemented!() }
}
// vec![0; n]
#[verifier::external_body]
pub fn zeroed_vec(n: usize) -> (r: Vec<u8>) ensures r@.len() == n { vec![0; n] }
#[verifier::external_body] pub fn likely(b: bool) -> (r: bool) ensures r == b { b }

// ---- RawMmapSource: the mmap slice after the header as a ghost length ----
pub tracked struct MW {
    pub ghost valid: nat,             // stored_len * size: bytes of valid data after the header
    pub ghost next: nat,              // byte offset (after the header) of the next element the scan has to deliver
}
#[verifier::external_body] pub struct ReaderM { _p: core::marker::PhantomData<u8> }
#[verifier::external_body] pub struct SliceM { _p: core::marker::PhantomData<u8> }
#[verifier::external_body] #[derive(Clone, Copy)] pub struct PtrM { _p: core::marker::PhantomData<u8> }
impl RegionIo { #[verifier::external_body] pub fn create_reader(&self) -> ReaderM { unimplemented!() } }
impl ReaderM { #[verifier::external_body] pub fn prefixed(&self, offset: usize) -> SliceM { unimplemented!() } }
impl SliceM { #[verifier::external_body] pub fn as_ptr(&self) -> PtrM { unimplemented!() } }
pub trait RawStrategyM<T>: Sized {
    // N11: `unsafe { S::read_from_ptr(data, byte_off) }` on the mmap slice after the header: C20: inside the valid data, element-aligned, the next element
    fn read_from_ptr_at(ptr: PtrM, byte_off: usize, Tracked(w): Tracked<&mut MW>) -> (r: T)
        requires byte_off + sz::<T>() <= old(w).valid, byte_off == old(w).next, byte_off as int % (sz::<T>() as int) == 0
        ensures *final(w) == (MW { next: (old(w).next + sz::<T>()) as nat, ..*old(w) });
}
