// World-passing shims (N9/N12) for rawdb's Database / Regions / File / Mmap / Layout guards as seen by the
// flush, compact and open paths. Every durable-image-relevant call appends one event to the ghost trace
// `w.tr`; ordering properties are stated as preconditions of the sensitive calls (promote, punch).
// All bodies are external: the OS / lock / mmap semantics are assumed, not verified.
pub enum Ev {
    DataAsync,          // mmap.flush_async_range on the data file
    MetaAsync,          // regions.flush(): msync(MS_ASYNC) of the metadata file
    SlotAsync,          // RegionMetadata::flush: async writeback of one metadata slot
    SlotWrite,          // RegionMetadata::write_if_dirty: slot bytes written to the metadata mmap
    FileSync,           // data file sync_data
    RegionsSync,        // metadata file sync_data
    MarkClean,
    TakeBounds,
    RestoreBounds,
    Promote,            // Layout::promote_pending_holes
    Punch,              // HolePunch::punch
}

pub tracked struct World {
    pub ghost tr: Seq<Ev>,
    // whether the layout's pending set is known to be empty (only promote / an explicit emptiness test tell)
    pub ghost pending_empty: bool,
    // state machine over the events of the current flush round (a round starts when dirty bounds are taken):
    pub ghost data_synced: bool,     // FileSync happened in this round
    pub ghost meta_durable: bool,    // RegionsSync happened after FileSync in this round
    pub ghost promotes: nat,         // number of Promote events so far
    pub ghost punches: nat,
    // --- compaction (U9) ---
    pub ghost flushed: bool,                     // a successful Database::flush happened in this compact()
    pub ghost holes: Map<usize, usize>,          // promoted holes of the layout (start_to_hole), fixed while the layout read lock is held
    pub ghost have_meta: bool,                   // a region-metadata WRITE guard was taken ...
    pub ghost held: (usize, usize, usize),       // ... with this (start, len, reserved) under it
    pub ghost file_len_changes: nat,             // set_len calls
}

impl World {
    pub open spec fn same_compact(self, o: World) -> bool {
        self.flushed == o.flushed && self.holes == o.holes && self.have_meta == o.have_meta && self.held == o.held
        && self.file_len_changes == o.file_len_changes
    }
    // everything except the trace and the named fields is unchanged
    pub open spec fn same_flags(self, o: World) -> bool {
        self.pending_empty == o.pending_empty && self.data_synced == o.data_synced && self.meta_durable == o.meta_durable
        && self.promotes == o.promotes && self.punches == o.punches && self.same_compact(o)
    }
}

#[verifier::external_body] pub struct Database { _p: core::marker::PhantomData<u8> }
#[verifier::external_body] pub struct RegionsG { _p: core::marker::PhantomData<u8> }
#[verifier::external_body] pub struct FileG { _p: core::marker::PhantomData<u8> }
#[verifier::external_body] pub struct MmapG { _p: core::marker::PhantomData<u8> }
#[verifier::external_body] pub struct LayoutG { _p: core::marker::PhantomData<u8> }
#[verifier::external_body] pub struct Region { _p: core::marker::PhantomData<u8> }
#[verifier::external_body] pub struct MetaG { _p: core::marker::PhantomData<u8> }
#[verifier::external_body] pub struct IoErr { _p: core::marker::PhantomData<u8> }
#[verifier::external_body] pub struct LockErr { _p: core::marker::PhantomData<u8> }
// (region, taken dirty bounds) list built by the iterator chain at the top of Database::flush
#[verifier::external_body] pub struct DirtyList { _p: core::marker::PhantomData<u8> }

impl Database {
    #[verifier::external_body] pub fn regions(&self) -> RegionsG { unimplemented!() }
    #[verifier::external_body] pub fn file(&self) -> FileG { unimplemented!() }
    #[verifier::external_body] pub fn mmap(&self) -> MmapG { unimplemented!() }
    #[verifier::external_body] pub fn layout_mut(&self) -> LayoutG { unimplemented!() }
    #[verifier::external_body] pub fn layout(&self) -> LayoutG { unimplemented!() }
    #[verifier::external_body] pub fn name(&self) -> &StrH { unimplemented!() }
}
impl Region {
    pub uninterp spec fn m_start(&self) -> usize;
    #[verifier::external_body] pub fn db(&self) -> Database { unimplemented!() }
    #[verifier::external_body] pub fn index(&self) -> usize { unimplemented!() }
    #[verifier::external_body] pub fn meta(&self) -> (g: MetaG) ensures g.v_start() == self.m_start() { unimplemented!() }
    // taking the dirty bounds starts a flush round. Assumed invariant of the bounds: non-empty, inside the region's
    // extent (so `start + max` does not overflow).
    #[verifier::external_body]
    pub fn take_dirty_bounds(&self, Tracked(w): Tracked<&mut World>) -> (r: Option<(usize, usize)>)
        ensures final(w).tr == old(w).tr.push(Ev::TakeBounds), final(w).pending_empty == old(w).pending_empty,
                !final(w).data_synced, !final(w).meta_durable, final(w).promotes == old(w).promotes, final(w).punches == old(w).punches, final(w).same_compact(*old(w)),
                r matches Some((a, b)) ==> a < b && self.m_start() + b <= usize::MAX
    { unimplemented!() }
    #[verifier::external_body]
    pub fn restore_dirty_bounds(&self, min: usize, max: usize, Tracked(w): Tracked<&mut World>)
        ensures final(w).tr == old(w).tr.push(Ev::RestoreBounds), final(w).same_flags(*old(w))
    { unimplemented!() }
}
impl MetaG {
    pub uninterp spec fn v_start(&self) -> usize;
    pub uninterp spec fn v_len(&self) -> usize;
    pub uninterp spec fn v_reserved(&self) -> usize;
    #[verifier::external_body] pub fn start(&self) -> (r: usize) ensures r == self.v_start() { unimplemented!() }
    #[verifier::external_body] pub fn len(&self) -> (r: usize) ensures r == self.v_len() { unimplemented!() }
    #[verifier::external_body] pub fn reserved(&self) -> (r: usize) ensures r == self.v_reserved() { unimplemented!() }
    // RegionMetadata::flush: schedules writeback of this slot; Ok(true) iff something was scheduled
    #[verifier::external_body]
    pub fn flush(&self, index: usize, regions: &RegionsG, Tracked(w): Tracked<&mut World>) -> (r: Result<bool>)
        ensures final(w).same_flags(*old(w)),
                r matches Ok(true) ==> final(w).tr == old(w).tr.push(Ev::SlotAsync),
                !(r matches Ok(true)) ==> final(w).tr == old(w).tr
    { unimplemented!() }
}
impl RegionsG {
    #[verifier::external_body]
    pub fn flush(&self, Tracked(w): Tracked<&mut World>) -> (r: Result<()>)
        ensures final(w).same_flags(*old(w)),
                r is Ok ==> final(w).tr == old(w).tr.push(Ev::MetaAsync), r is Err ==> final(w).tr == old(w).tr
    { unimplemented!() }
    #[verifier::external_body]
    // C05.order: the metadata file is made durable only after the data it points to (same round)
    pub fn sync_data(&self, Tracked(w): Tracked<&mut World>) -> (r: Result<()>)
        requires old(w).data_synced
        ensures final(w).pending_empty == old(w).pending_empty, final(w).data_synced == old(w).data_synced,
                final(w).promotes == old(w).promotes, final(w).punches == old(w).punches, final(w).same_compact(*old(w)),
                r is Ok ==> final(w).tr == old(w).tr.push(Ev::RegionsSync) && final(w).meta_durable,
                r is Err ==> final(w).tr == old(w).tr && final(w).meta_durable == old(w).meta_durable
    { unimplemented!() }
}
impl FileG {
    #[verifier::external_body]
    pub fn sync_data(&self, Tracked(w): Tracked<&mut World>) -> (r: std::result::Result<(), IoErr>)
        ensures final(w).pending_empty == old(w).pending_empty, final(w).meta_durable == old(w).meta_durable,
                final(w).promotes == old(w).promotes, final(w).punches == old(w).punches, final(w).same_compact(*old(w)),
                r is Ok ==> final(w).tr == old(w).tr.push(Ev::FileSync) && final(w).data_synced,
                r is Err ==> final(w).tr == old(w).tr && final(w).data_synced == old(w).data_synced
    { unimplemented!() }
}
impl MmapG {
    #[verifier::external_body]
    pub fn flush_async_range(&self, start: usize, len: usize, Tracked(w): Tracked<&mut World>) -> (r: std::result::Result<(), IoErr>)
        ensures final(w).same_flags(*old(w)),
                r is Ok ==> final(w).tr == old(w).tr.push(Ev::DataAsync), r is Err ==> final(w).tr == old(w).tr
    { unimplemented!() }
}
impl LayoutG {
    // U1 proves what promotion does to the extent maps; here only *when* it may run:
    // the metadata that freed the pending extents must be durable first (C05.order-db)
    #[verifier::external_body]
    pub fn promote_pending_holes(&mut self, name: &StrH, Tracked(w): Tracked<&mut World>)
        requires old(w).pending_empty || old(w).meta_durable
        ensures final(w).tr == old(w).tr.push(Ev::Promote), final(w).pending_empty, final(w).promotes == old(w).promotes + 1,
                final(w).data_synced == old(w).data_synced, final(w).meta_durable == old(w).meta_durable, final(w).punches == old(w).punches, final(w).same_compact(*old(w))
    { unimplemented!() }
    // emptiness test of the pending set (used by the repaired fast path)
    #[verifier::external_body]
    pub fn has_pending_holes(&self, Tracked(w): Tracked<&mut World>) -> (r: bool)
        ensures final(w).tr == old(w).tr, !r ==> final(w).pending_empty, r ==> final(w).pending_empty == old(w).pending_empty,
                final(w).data_synced == old(w).data_synced, final(w).meta_durable == old(w).meta_durable,
                final(w).promotes == old(w).promotes, final(w).punches == old(w).punches, final(w).same_compact(*old(w))
    { unimplemented!() }
}
impl DirtyList {
    pub uninterp spec fn n(&self) -> nat;
    pub uninterp spec fn has_bounds(&self) -> bool;
    #[verifier::external_body] pub fn is_empty(&self) -> (r: bool) ensures r == (self.n() == 0) { unimplemented!() }
    #[verifier::external_body] pub fn len(&self) -> (r: usize) ensures r == self.n() { unimplemented!() }
}
// the iterator chain `regions().index_to_region().iter().flatten().filter_map(|r| take_dirty_bounds ..).collect()`
#[verifier::external_body]
pub fn collect_dirty_regions(db: &Database, Tracked(w): Tracked<&mut World>) -> (r: DirtyList)
    // taking the dirty bounds starts a new flush round: nothing is synced yet
    ensures final(w).tr == old(w).tr.push(Ev::TakeBounds), final(w).pending_empty == old(w).pending_empty,
            !final(w).data_synced, !final(w).meta_durable, final(w).promotes == old(w).promotes, final(w).punches == old(w).punches, final(w).same_compact(*old(w))
{ unimplemented!() }
// the `.iter().filter_map(..).fold(..)` computing the union of the dirty byte ranges: (MAX, 0) when none
#[verifier::external_body]
pub fn flush_bounds(d: &DirtyList) -> (r: (usize, usize))
{ unimplemented!() }
// `for (region, bounds) in dirty_regions { if let Some((min, max)) = bounds { region.restore_dirty_bounds(min, max) } }`
#[verifier::external_body]
pub fn restore_all(d: DirtyList, Tracked(w): Tracked<&mut World>)
    ensures final(w).tr == old(w).tr.push(Ev::RestoreBounds), final(w).same_flags(*old(w))
{ unimplemented!() }
// `for (region, _) in &dirty_regions { region.meta().mark_clean(); }`
#[verifier::external_body]
pub fn mark_all_clean(d: &DirtyList, Tracked(w): Tracked<&mut World>)
    ensures final(w).tr == old(w).tr.push(Ev::MarkClean), final(w).same_flags(*old(w))
{ unimplemented!() }
#[verifier::external_body]
pub fn drop<T>(t: T) { }
