// U2 spec vocabulary: the on-disk slot of one region
pub open spec fn zeros(n: int) -> Seq<u8> { Seq::new(n as nat, |i: int| 0u8) }

// exact byte layout of a metadata slot: four LE u64 (start, len, reserved, id length), the id, zero fill
pub open spec fn enc_meta(start: usize, len: usize, reserved: usize, id: Seq<u8>) -> Seq<u8> {
    le64(start as u64) + le64(len as u64) + le64(reserved as u64) + le64(id.len() as u64) + id + zeros(4096 - 32 - id.len())
}

pub open spec fn meta_valid(start: usize, len: usize, reserved: usize, id: Seq<u8>) -> bool {
    &&& start % 4096 == 0
    &&& reserved >= 4096 && reserved % 4096 == 0
    &&& len <= reserved
    &&& id.len() <= 1024
}

impl RegionMetadata {
    pub open spec fn wf(&self) -> bool { meta_valid(self.start, self.len, self.reserved, self.id.bytes()) }
    pub open spec fn enc(&self) -> Seq<u8> { enc_meta(self.start, self.len, self.reserved, self.id.bytes()) }
}

pub proof fn lemma_enc_fields(start: usize, len: usize, reserved: usize, id: Seq<u8>)
    requires id.len() <= 1024
    ensures ({
        let b = enc_meta(start, len, reserved, id);
        &&& b.len() == 4096
        &&& b.subrange(0, 8) == le64(start as u64) && b.subrange(8, 16) == le64(len as u64)
        &&& b.subrange(16, 24) == le64(reserved as u64) && b.subrange(24, 32) == le64(id.len() as u64)
        &&& b.subrange(32, 32 + id.len() as int) == id
    })
{
    broadcast use le64_props;
    let b = enc_meta(start, len, reserved, id);
    assert(b.subrange(0, 8) =~= le64(start as u64));
    assert(b.subrange(8, 16) =~= le64(len as u64));
    assert(b.subrange(16, 24) =~= le64(reserved as u64));
    assert(b.subrange(24, 32) =~= le64(id.len() as u64));
    assert(b.subrange(32, 32 + id.len() as int) =~= id);
}

// [C17.meta-rt] decode(encode(m)) == m, as a lemma over the two contracts
pub proof fn lemma_meta_roundtrip(start: usize, len: usize, reserved: usize, id: Seq<u8>)
    requires id.len() <= 1024
    ensures ({
        let b = enc_meta(start, len, reserved, id);
        &&& un_le64(b.subrange(0, 8)) == start && un_le64(b.subrange(8, 16)) == len && un_le64(b.subrange(16, 24)) == reserved
        &&& b.subrange(32, 32 + un_le64(b.subrange(24, 32)) as int) == id
    })
{
    broadcast use le64_props;
    lemma_enc_fields(start, len, reserved, id);
}
