// U21 lemmas: a peekable range iterator over a sorted set, as the ghost sequence of what it still has to yield

// the head of the iterator decides membership of the lower bound; stepping the bound keeps the iterator well formed
pub proof fn lemma_hole_head(it: HoleIter, s: Set<usize>, lo: int, hi: int)
    requires it.wf(s, lo, hi), 0 <= lo <= usize::MAX
    ensures
        (it.rem.len() > 0 && it.rem[0] == lo) <==> (s.contains(lo as usize) && lo < hi),
        (it.rem.len() > 0 && it.rem[0] == lo) ==> (HoleIter { rem: it.rem.skip(1) }).wf(s, lo + 1, hi),
        !(it.rem.len() > 0 && it.rem[0] == lo) ==> it.wf(s, lo + 1, hi),
{
    let r = it.rem;
    if r.len() > 0 && r[0] == lo {
        assert(r.contains(r[0]));
        let r1 = r.skip(1);
        assert forall|x: usize| r1.contains(x) <==> (s.contains(x) && lo + 1 <= x < hi) by {
            if r1.contains(x) { let j = choose|j: int| 0 <= j < r1.len() && r1[j] == x; assert(r[j + 1] == x); assert(r.contains(x)); assert(r[0] < r[j + 1]); }
            if s.contains(x) && lo + 1 <= x < hi { assert(r.contains(x)); let j = choose|j: int| 0 <= j < r.len() && r[j] == x; assert(j != 0); assert(r1[j - 1] == x); }
        }
        assert(increasing(r1)) by { assert forall|i: int, j: int| 0 <= i < j < r1.len() implies r1[i] < r1[j] by { assert(r[i + 1] < r[j + 1]); } }
    } else {
        if s.contains(lo as usize) && lo < hi {
            assert(r.contains(lo as usize));
            let j = choose|j: int| 0 <= j < r.len() && r[j] == lo as usize;
            if j > 0 { assert(r.contains(r[0])); assert(r[0] < r[j]); }
        }
        assert forall|x: usize| r.contains(x) <==> (s.contains(x) && lo + 1 <= x < hi) by {
            if r.contains(x) && x == lo { let j = choose|j: int| 0 <= j < r.len() && r[j] == x; if j > 0 { assert(r.contains(r[0])); assert(r[0] < r[j]); } }
        }
    }
}
pub proof fn lemma_upd_head<T: Copy>(it: UpdIter<T>, m: Map<usize, T>, lo: int, hi: int)
    requires it.wf(m, lo, hi), 0 <= lo <= usize::MAX
    ensures
        (it.keys.len() > 0 && it.keys[0] == lo) <==> (m.contains_key(lo as usize) && lo < hi),
        (it.keys.len() > 0 && it.keys[0] == lo) ==> it.vals[0] == m[lo as usize] && (UpdIter { keys: it.keys.skip(1), vals: it.vals.skip(1) }).wf(m, lo + 1, hi),
        !(it.keys.len() > 0 && it.keys[0] == lo) ==> it.wf(m, lo + 1, hi),
{
    let r = it.keys;
    if r.len() > 0 && r[0] == lo {
        assert(r.contains(r[0]));
        let r1 = r.skip(1);
        let v1 = it.vals.skip(1);
        assert forall|x: usize| r1.contains(x) <==> (m.contains_key(x) && lo + 1 <= x < hi) by {
            if r1.contains(x) { let j = choose|j: int| 0 <= j < r1.len() && r1[j] == x; assert(r[j + 1] == x); assert(r.contains(x)); assert(r[0] < r[j + 1]); }
            if m.contains_key(x) && lo + 1 <= x < hi { assert(r.contains(x)); let j = choose|j: int| 0 <= j < r.len() && r[j] == x; assert(j != 0); assert(r1[j - 1] == x); }
        }
        assert(increasing(r1)) by { assert forall|i: int, j: int| 0 <= i < j < r1.len() implies r1[i] < r1[j] by { assert(r[i + 1] < r[j + 1]); } }
        assert forall|i: int| 0 <= i < r1.len() implies v1[i] == m[#[trigger] r1[i]] by { assert(it.vals[i + 1] == m[r[i + 1]]); }
    } else {
        if m.contains_key(lo as usize) && lo < hi {
            assert(r.contains(lo as usize));
            let j = choose|j: int| 0 <= j < r.len() && r[j] == lo as usize;
            if j > 0 { assert(r.contains(r[0])); assert(r[0] < r[j]); }
        }
        assert forall|x: usize| r.contains(x) <==> (m.contains_key(x) && lo + 1 <= x < hi) by {
            if r.contains(x) && x == lo { let j = choose|j: int| 0 <= j < r.len() && r[j] == x; if j > 0 { assert(r.contains(r[0])); assert(r[0] < r[j]); } }
        }
    }
}
// an iterator over [lo, hi) with lo >= hi is exhausted, and is also an iterator over any other empty range
pub proof fn lemma_upd_empty<T: Copy>(it: UpdIter<T>, m: Map<usize, T>, lo: int, hi: int, lo2: int)
    requires it.wf(m, lo, hi), lo >= hi, lo2 >= hi
    ensures it.keys.len() == 0, it.wf(m, lo2, hi)
{
    if it.keys.len() > 0 { assert(it.keys.contains(it.keys[0])); }
}
pub proof fn lemma_view_step<T>(v: Seq<Option<T>>, from: int, i: int)
    requires 0 <= from <= i < v.len()
    ensures flat(v.subrange(from, i + 1)) == (match v[i] { Some(y) => flat(v.subrange(from, i)).push(y), None => flat(v.subrange(from, i)) })
{
    assert(v.subrange(from, i + 1) =~= v.subrange(from, i).push(v[i]));
    lemma_flat_push(v.subrange(from, i), v[i]);
}
