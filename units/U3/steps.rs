// U3 step lemmas: the lemmas of spec.rs (statements about extent maps) restated over two ghost worlds, `w0` before a
// step of write_with and `w` after it, so that the function body only has to name the two worlds.

pub open spec fn same_meta(a: DW, b: DW) -> bool { a.start == b.start && a.len == b.len && a.reserved == b.reserved }
pub open spec fn same_layout_but(a: DW, b: DW, h: bool, p: bool, v: bool) -> bool {
    a.others == b.others && a.my_key == b.my_key && (h || a.h == b.h) && (p || a.p == b.p) && (v || a.v == b.v)
}

// this region's own extent lies in the file
pub proof fn step_me(w: DW)
    requires w.inv()
    ensures w.start + w.reserved <= usize::MAX, w.in_file() ==> w.start + w.reserved <= w.file_len
{
    lemma_me(w.others, w.start, w.reserved, w.h, w.p, w.v);
    assert(w.r() == w.others.insert(w.start, w.reserved));
}

// L1: the last extent of the file grows in place (the file is extended afterwards, outside the layout lock)
pub proof fn step_grow_last(w0: DW, w: DW)
    requires
        w0.inv(), w0.in_file(), same_layout_but(w, w0, false, false, false), w.start == w0.start, w.len == w0.len,
        w.reserved >= w0.reserved, w.reserved % 4096 == 0, w.reserved <= 1024 * 1024 * 1024 * 1024, w.start + w.reserved <= usize::MAX,
        forall|b: usize| w0.others.contains_key(b) ==> b < w0.start, forall|b: usize| w0.h.contains_key(b) ==> b < w0.start,
        forall|b: usize| w0.p.contains_key(b) ==> b < w0.start, forall|b: usize| w0.v.contains_key(b) ==> b < w0.start,
    ensures
        w.inv(),
        w.file_len >= w0.file_len && w.file_len >= w.start + w.reserved ==> w.in_file(),
{
    lemma_grow_last(w0.others, w0.start, w0.reserved, w.reserved, w0.h, w0.p, w0.v);
    assert(w0.r() == w0.others.insert(w0.start, w0.reserved));
    assert(w.r() == w0.others.insert(w0.start, w.reserved));
    if w.file_len >= w0.file_len && w.file_len >= w.start + w.reserved {
        assert forall|x: int| cover4(w.r(), w.h, w.p, w.v, x) implies x < w.file_len by {
            assert(cover4(w0.others.insert(w0.start, w.reserved), w0.h, w0.p, w0.v, x));
            if !(w0.start <= x < w0.start + w.reserved) { assert(cover4(w0.r(), w0.h, w0.p, w0.v, x)); }
        }
    }
}

// L2: the region grows into the hole that begins where it ends
pub proof fn step_grow_into_hole(w0: DW, w: DW, e: usize, add: usize)
    requires
        w0.inv(), w0.in_file(), same_layout_but(w, w0, true, false, false), w.start == w0.start, w.len == w0.len, w.file_len == w0.file_len,
        e == w0.start + w0.reserved, w.reserved == w0.reserved + add, add > 0, add % 4096 == 0, w.reserved <= 1024 * 1024 * 1024 * 1024,
        w0.h.contains_key(e), w0.h[e] >= add, w.h == compressed(w0.h, e, add),
    ensures w.inv(), w.in_file()
{
    lemma_me(w0.others, w0.start, w0.reserved, w0.h, w0.p, w0.v);
    lemma_grow_into_hole(w0.others, w0.start, w0.reserved, add, w0.h, w0.p, w0.v);
    lemma_tiles_parts(w0.r(), w0.h, w0.p, w0.v);
    lemma_compress_aligned(w0.h, e, add);
    assert(w0.r() == w0.others.insert(w0.start, w0.reserved));
    assert(w.r() == w0.others.insert(w0.start, (w0.reserved + add) as usize));
    assert forall|x: int| cover4(w.r(), w.h, w.p, w.v, x) implies x < w.file_len by {
        assert(cover4(w0.others.insert(w0.start, (w0.reserved + add) as usize), compressed(w0.h, (w0.start + w0.reserved) as usize, add), w0.p, w0.v, x));
        assert(cover4(w0.r(), w0.h, w0.p, w0.v, x));
    }
}

// L3: (part of) a hole becomes this call's reservation
pub proof fn step_hole_to_reserved(w0: DW, w: DW, s: usize, n: usize)
    requires
        w0.inv(), w0.in_file(), same_layout_but(w, w0, true, false, true), same_meta(w, w0), w.file_len == w0.file_len,
        w0.h.contains_key(s), w0.h[s] >= n, n > 0, n % 4096 == 0,
        w.h == compressed(w0.h, s, n), w.v == w0.v.insert(s, n),
    ensures w.inv(), w.in_file()
{
    lemma_hole_to_reserved(w0.r(), w0.h, w0.p, w0.v, s, n);
    lemma_tiles_parts(w0.r(), w0.h, w0.p, w0.v);
    lemma_compress_aligned(w0.h, s, n);
    assert(w.r() == w0.r());
    assert forall|x: int| cover4(w.r(), w.h, w.p, w.v, x) implies x < w.file_len by {
        assert(cover4(w0.r(), compressed(w0.h, s, n), w0.p, w0.v.insert(s, n), x));
        assert(cover4(w0.r(), w0.h, w0.p, w0.v, x));
    }
}

// L4: the reservation is appended at the end of everything (the file is extended afterwards, outside the layout lock)
pub proof fn step_append(w0: DW, w: DW, e: usize, n: usize)
    requires
        w0.inv(), w0.in_file(), same_layout_but(w, w0, false, false, true), same_meta(w, w0),
        n > 0, n % 4096 == 0, w.v == w0.v.insert(e, n),
        forall|a: usize| w0.r().contains_key(a) ==> a + w0.r()[a] <= e, forall|a: usize| w0.h.contains_key(a) ==> a + w0.h[a] <= e,
        forall|a: usize| w0.p.contains_key(a) ==> a + w0.p[a] <= e, forall|a: usize| w0.v.contains_key(a) ==> a + w0.v[a] <= e,
        e == 0 || cover4(w0.r(), w0.h, w0.p, w0.v, e - 1),
        e + n <= usize::MAX,
    ensures
        e % 4096 == 0, e <= w0.file_len, !w0.v.contains_key(e),
        w.inv(),
        w.file_len >= w0.file_len && w.file_len >= e + n ==> w.in_file(),
{
    assert(w0.r() == w0.others.insert(w0.start, w0.reserved));
    assert(aligned_map(w0.r()));
    lemma_end_aligned(w0.r(), w0.h, w0.p, w0.v, e);
    lemma_append_reserve(w0.r(), w0.h, w0.p, w0.v, e, n);
    assert(w.r() == w0.r());
    if w.file_len >= w0.file_len && w.file_len >= e + n {
        assert forall|x: int| cover4(w.r(), w.h, w.p, w.v, x) implies x < w.file_len by {
            assert(cover4(w0.r(), w0.h, w0.p, w0.v.insert(e, n), x));
            if !(e <= x < e + n) { assert(cover4(w0.r(), w0.h, w0.p, w0.v, x)); }
        }
    }
}
// the end of everything is inside the file (so `layout.len() + new_reserved` cannot overflow)
pub proof fn step_end_in_file(w0: DW, e: usize)
    requires w0.in_file(), e == 0 || cover4(w0.r(), w0.h, w0.p, w0.v, e - 1)
    ensures e <= w0.file_len
{ }

// the reservation this call holds: inside the file, beside the region's current extent
pub proof fn step_resv(w: DW, ns: usize)
    requires w.inv(), w.in_file(), w.v.contains_key(ns)
    ensures
        w.v[ns] > 0, ns + w.v[ns] <= w.file_len, w.start + w.reserved <= w.file_len,
        w.start + w.reserved <= ns || ns + w.v[ns] <= w.start,
        ns % 4096 == 0, w.v[ns] % 4096 == 0,
{
    assert(w.r() == w.others.insert(w.start, w.reserved));
    lemma_me(w.others, w.start, w.reserved, w.h, w.p, w.v);
    lemma_resv(w.others, w.start, w.reserved, w.h, w.p, w.v, ns);
}

// L5: the move is published
pub proof fn step_finish_move(w1: DW, w: DW, ns: usize)
    requires
        w1.inv(), w1.in_file(), w1.v.contains_key(ns), w1.v[ns] <= 1024 * 1024 * 1024 * 1024,
        w.others == w1.others, w.my_key == Some(ns), w.start == ns, w.reserved == w1.v[ns], w.len <= w.reserved,
        w.h == w1.h, w.p == w1.p.insert(w1.start, w1.reserved), w.v == w1.v.remove(ns), w.file_len == w1.file_len,
    ensures w.inv(), w.in_file()
{
    let n = w1.v[ns];
    assert(w1.r() == w1.others.insert(w1.start, w1.reserved));
    lemma_finish_move(w1.others, w1.start, w1.reserved, w1.h, w1.p, w1.v, ns, n);
    assert(w.r() == w1.others.insert(ns, n));
    assert(aligned_map(w.p));
    assert(aligned_map(w.v));
    assert forall|x: int| cover4(w.r(), w.h, w.p, w.v, x) implies x < w.file_len by {
        assert(cover4(w1.others.insert(ns, n), w1.h, w1.p.insert(w1.start, w1.reserved), w1.v.remove(ns), x));
        assert(cover4(w1.r(), w1.h, w1.p, w1.v, x));
    }
}
// before the move is published: the target key is free
pub proof fn step_move_target_free(w1: DW, ns: usize)
    requires w1.inv(), w1.v.contains_key(ns)
    ensures !w1.others.contains_key(ns), ns != w1.start
{
    assert(w1.r() == w1.others.insert(w1.start, w1.reserved));
    lemma_finish_move(w1.others, w1.start, w1.reserved, w1.h, w1.p, w1.v, ns, w1.v[ns]);
}

// remove: this region's extent becomes a pending hole
pub proof fn step_remove(w0: DW, w: DW)
    requires
        w0.inv(), w0.in_file(), w.others == w0.others, w.my_key is None, w.h == w0.h, w.v == w0.v,
        w.p == w0.p.insert(w0.start, w0.reserved), w.file_len == w0.file_len,
    ensures w.inv_gone(), w.in_file()
{
    let r0 = w0.others.insert(w0.start, w0.reserved);
    assert(w0.r() == r0);
    lemma_region_to_pending(r0, w0.h, w0.p, w0.v, w0.start);
    assert(r0.remove(w0.start) =~= w0.others);
    assert(r0[w0.start] == w0.reserved);
    assert(w.r() == w0.others);
    assert(aligned_map(w.p));
    // lemma_region_to_pending proves the cover equivalence internally; redo it here for in_file
    assert forall|x: int| cover4(w.r(), w.h, w.p, w.v, x) implies x < w.file_len by {
        lemma_cover_insert(w0.others, w0.start, w0.reserved, x);
        assert(!w0.p.contains_key(w0.start)) by { if w0.p.contains_key(w0.start) { assert(r0.contains_key(w0.start) && w0.p.contains_key(w0.start)); assert(w0.p[w0.start] > 0 && r0[w0.start] > 0); } }
        lemma_cover_insert(w0.p, w0.start, w0.reserved, x);
        assert(cover4(r0, w0.h, w0.p, w0.v, x));
    }
}

// create, first half: the place for the new region is a reservation-shaped step (L3 or L4) followed by L8
pub proof fn step_create_in_hole(w0: DW, w: DW, s: usize)
    requires
        w0.inv_gone(), w0.in_file(), w.others == w0.others, w.my_key == Some(s), w.start == s, w.len == 0, w.reserved == 4096,
        w0.h.contains_key(s), w0.h[s] >= 4096, w.h == compressed(w0.h, s, 4096), w.p == w0.p, w.v == w0.v, w.file_len == w0.file_len,
    ensures w.inv(), w.in_file()
{
    let n: usize = 4096;
    lemma_hole_to_reserved(w0.others, w0.h, w0.p, w0.v, s, n);
    lemma_tiles_parts(w0.others, w0.h, w0.p, w0.v);
    lemma_compress_aligned(w0.h, s, n);
    let v1 = w0.v.insert(s, n);
    lemma_reserved_to_region(w0.others, w.h, w0.p, v1, s);
    assert(v1.remove(s) =~= w0.v);
    assert(w0.r() == w0.others);
    assert(w.r() == w0.others.insert(s, n));
    assert forall|x: int| cover4(w.r(), w.h, w.p, w.v, x) implies x < w.file_len by {
        assert(cover4(w0.others.insert(s, v1[s]), w.h, w0.p, v1.remove(s), x));
        assert(cover4(w0.others, compressed(w0.h, s, n), w0.p, v1, x));
        assert(cover4(w0.others, w0.h, w0.p, w0.v, x));
    }
}
pub proof fn step_create_at_end(w0: DW, w: DW, e: usize)
    requires
        w0.inv_gone(), w0.in_file(), w.others == w0.others, w.my_key == Some(e), w.start == e, w.len == 0, w.reserved == 4096,
        w.h == w0.h, w.p == w0.p, w.v == w0.v, w.file_len == w0.file_len, e + 4096 <= w0.file_len, e + 4096 <= usize::MAX,
        forall|a: usize| w0.others.contains_key(a) ==> a + w0.others[a] <= e, forall|a: usize| w0.h.contains_key(a) ==> a + w0.h[a] <= e,
        forall|a: usize| w0.p.contains_key(a) ==> a + w0.p[a] <= e, forall|a: usize| w0.v.contains_key(a) ==> a + w0.v[a] <= e,
        e == 0 || cover4(w0.others, w0.h, w0.p, w0.v, e - 1),
    ensures w.inv(), w.in_file()
{
    let n: usize = 4096;
    assert(w0.r() == w0.others);
    lemma_end_aligned(w0.others, w0.h, w0.p, w0.v, e);
    lemma_append_reserve(w0.others, w0.h, w0.p, w0.v, e, n);
    let v1 = w0.v.insert(e, n);
    lemma_reserved_to_region(w0.others, w0.h, w0.p, v1, e);
    assert(v1.remove(e) =~= w0.v);
    assert(w.r() == w0.others.insert(e, n));
    assert forall|x: int| cover4(w.r(), w.h, w.p, w.v, x) implies x < w.file_len by {
        assert(cover4(w0.others.insert(e, v1[e]), w0.h, w0.p, v1.remove(e), x));
        assert(cover4(w0.others, w0.h, w0.p, v1, x));
        if !(e <= x < e + n) { assert(cover4(w0.others, w0.h, w0.p, w0.v, x)); }
    }
}

pub proof fn step_in_file_grow(a: DW, b: DW)
    requires a.in_file(), b.r() == a.r(), b.h == a.h, b.p == a.p, b.v == a.v, b.file_len >= a.file_len
    ensures b.in_file()
{ }

// create: the chosen start is page-aligned and not the start of a live region
pub proof fn step_create_target_hole(w1: DW, s: usize)
    requires w1.inv_gone(), w1.h.contains_key(s), w1.h[s] >= 4096
    ensures s % 4096 == 0, !w1.others.contains_key(s)
{
    lemma_hole_to_reserved(w1.others, w1.h, w1.p, w1.v, s, 4096);
    lemma_reserved_to_region(w1.others, compressed(w1.h, s, 4096), w1.p, w1.v.insert(s, 4096), s);
}
pub proof fn step_create_target_end(w1: DW, e: usize, e0: usize)
    requires
        w1.inv_gone(), w1.in_file(),
        forall|a: usize| w1.others.contains_key(a) ==> a + w1.others[a] <= e, forall|a: usize| w1.h.contains_key(a) ==> a + w1.h[a] <= e,
        forall|a: usize| w1.p.contains_key(a) ==> a + w1.p[a] <= e, forall|a: usize| w1.v.contains_key(a) ==> a + w1.v[a] <= e,
        e == 0 || cover4(w1.others, w1.h, w1.p, w1.v, e - 1),
        // e0: what layout.len() returned before the file was extended, in the same layout
        forall|a: usize| w1.others.contains_key(a) ==> a + w1.others[a] <= e0, forall|a: usize| w1.h.contains_key(a) ==> a + w1.h[a] <= e0,
        forall|a: usize| w1.p.contains_key(a) ==> a + w1.p[a] <= e0, forall|a: usize| w1.v.contains_key(a) ==> a + w1.v[a] <= e0,
    ensures e % 4096 == 0, !w1.others.contains_key(e), e <= e0, e <= w1.file_len
{
    assert(w1.r() == w1.others);
    lemma_end_aligned(w1.others, w1.h, w1.p, w1.v, e);
    lemma_end_unique(w1.others, w1.h, w1.p, w1.v, e, e0);
    lemma_tiles_parts(w1.others, w1.h, w1.p, w1.v);
    if w1.others.contains_key(e) { assert(w1.others[e] > 0); }
}
