// U3 lemmas: what each allocation step of write_with does to the partition of the file (tiles4), as statements about maps.

pub open spec fn new_len_spec(at: Option<usize>, data_len: int, len: int, truncate: bool) -> int {
    match at { None => len + data_len, Some(a) => if truncate { a + data_len } else if a + data_len > len { a + data_len } else { len } }
}

// every extent of the four maps ends at or below `e`
pub open spec fn all_below(r: Map<usize, usize>, h: Map<usize, usize>, p: Map<usize, usize>, v: Map<usize, usize>, e: int) -> bool {
    forall|x: int| cover4(r, h, p, v, x) ==> x < e
}

pub proof fn lemma_cover_insert(m: Map<usize, usize>, k: usize, s: usize, x: int)
    requires !m.contains_key(k)
    ensures covers(m.insert(k, s), x) <==> (covers(m, x) || k <= x < k + s)
{
    let m1 = m.insert(k, s);
    if covers(m1, x) { let a = choose|a: usize| m1.contains_key(a) && a <= x < a + m1[a]; if a != k { assert(m.contains_key(a) && a <= x < a + m[a]); } }
    if covers(m, x) { let a = choose|a: usize| m.contains_key(a) && a <= x < a + m[a]; assert(m1.contains_key(a) && a <= x < a + m1[a]); }
    if k <= x < k + s { assert(m1.contains_key(k) && k <= x < k + m1[k]); }
}

pub proof fn lemma_cover_remove(m: Map<usize, usize>, k: usize, x: int)
    requires m.contains_key(k), pairwise_disjoint(m)
    ensures covers(m.remove(k), x) <==> (covers(m, x) && !(k <= x < k + m[k]))
{
    let m1 = m.remove(k);
    if covers(m1, x) {
        let a = choose|a: usize| m1.contains_key(a) && a <= x < a + m1[a];
        assert(m.contains_key(a) && a <= x < a + m[a]);
        if a < k { assert(a + m[a] <= k); } else { assert(k + m[k] <= a); }
    }
    if covers(m, x) && !(k <= x < k + m[k]) { let a = choose|a: usize| m.contains_key(a) && a <= x < a + m[a]; assert(m1.contains_key(a) && a <= x < a + m1[a]); }
}

// L3: part (or all) of a hole becomes an in-flight reservation
pub proof fn lemma_hole_to_reserved(r: Map<usize, usize>, h: Map<usize, usize>, p: Map<usize, usize>, v: Map<usize, usize>, s: usize, n: usize)
    requires tiles4(r, h, p, v), h.contains_key(s), h[s] >= n, n > 0
    ensures ({
        let h1 = compressed(h, s, n);
        &&& !v.contains_key(s)
        &&& tiles4(r, h1, p, v.insert(s, n))
        &&& forall|x: int| cover4(r, h1, p, v.insert(s, n), x) <==> cover4(r, h, p, v, x)
    })
{
    let h1 = if h[s] == n { h.remove(s) } else { h.remove(s).insert((s + n) as usize, (h[s] - n) as usize) };
    let v1 = v.insert(s, n);
    assert(!v.contains_key(s)) by { if v.contains_key(s) { assert(s + v[s] <= s || s + h[s] <= s); } }
    assert(pairwise_disjoint(h)) by {
        assert forall|a: usize, b: usize| h.contains_key(a) && h.contains_key(b) && a < b implies a + h[a] <= b by { assert(a + h[a] < b); }
    }
    // the new hole (if any) and the new reservation both lie inside the old hole [s, s + h[s])
    assert(separated(h1)) by {
        assert forall|a: usize| #[trigger] h1.contains_key(a) implies h1[a] > 0 && a + h1[a] <= usize::MAX by { if a != s + n || h[s] == n { assert(h.contains_key(a)); } }
        assert forall|a: usize, b: usize| h1.contains_key(a) && h1.contains_key(b) && a < b implies a + h1[a] < b by {
            if h[s] != n && a == s + n { assert(h.contains_key(b) && b != s); assert(s < b); assert(s + h[s] < b); }
            else if h[s] != n && b == s + n { assert(h.contains_key(a) && a != s); if a < s { assert(a + h[a] < s); } else { assert(s + h[s] < a); } }
            else { assert(h.contains_key(a) && h.contains_key(b)); }
        }
    }
    assert(pairwise_disjoint(v1)) by {
        assert forall|a: usize, b: usize| v1.contains_key(a) && v1.contains_key(b) && a < b implies a + v1[a] <= b by {
            if a == s { assert(v.contains_key(b) && h.contains_key(s)); assert(b + v[b] <= s || s + h[s] <= b); }
            else if b == s { assert(v.contains_key(a) && h.contains_key(s)); assert(a + v[a] <= s || s + h[s] <= a); }
        }
    }
    assert(disjoint_maps(r, h1)) by { assert forall|a: usize, b: usize| r.contains_key(a) && h1.contains_key(b) implies (a + r[a] <= b || b + h1[b] <= a) by {
        if h[s] != n && b == s + n { assert(h.contains_key(s)); assert(a + r[a] <= s || s + h[s] <= a); } else { assert(h.contains_key(b)); } } }
    assert(disjoint_maps(p, h1)) by { assert forall|a: usize, b: usize| p.contains_key(a) && h1.contains_key(b) implies (a + p[a] <= b || b + h1[b] <= a) by {
        if h[s] != n && b == s + n { assert(h.contains_key(s)); assert(a + p[a] <= s || s + h[s] <= a); } else { assert(h.contains_key(b)); } } }
    assert(disjoint_maps(r, v1)) by { assert forall|a: usize, b: usize| r.contains_key(a) && v1.contains_key(b) implies (a + r[a] <= b || b + v1[b] <= a) by {
        if b == s { assert(h.contains_key(s)); assert(a + r[a] <= s || s + h[s] <= a); } } }
    assert(disjoint_maps(p, v1)) by { assert forall|a: usize, b: usize| p.contains_key(a) && v1.contains_key(b) implies (a + p[a] <= b || b + v1[b] <= a) by {
        if b == s { assert(h.contains_key(s)); assert(a + p[a] <= s || s + h[s] <= a); } } }
    assert(disjoint_maps(v1, h1)) by { assert forall|a: usize, b: usize| v1.contains_key(a) && h1.contains_key(b) implies (a + v1[a] <= b || b + h1[b] <= a) by {
        if a == s {
            if h[s] != n && b == s + n { } else { assert(h.contains_key(b) && b != s); if b < s { assert(b + h[b] < s); } else { assert(s + h[s] < b); } }
        } else {
            assert(v.contains_key(a));
            if h[s] != n && b == s + n { assert(h.contains_key(s)); assert(a + v[a] <= s || s + h[s] <= a); } else { assert(h.contains_key(b)); }
        }
    } }
    assert forall|x: int| cover4(r, h1, p, v1, x) <==> cover4(r, h, p, v, x) by {
        lemma_cover_insert(v, s, n, x);
        lemma_cover_remove(h, s, x);
        if h[s] != n { lemma_cover_insert(h.remove(s), (s + n) as usize, (h[s] - n) as usize, x); }
        if s <= x < s + h[s] { assert(h.contains_key(s) && s <= x < s + h[s]); }
    }
    assert forall|x: int, y: int| 0 <= x <= y && #[trigger] cover4(r, h1, p, v1, y) implies #[trigger] cover4(r, h1, p, v1, x) by {
        assert(cover4(r, h, p, v, y)); assert(cover4(r, h, p, v, x));
    }
}

// what remove_or_compress_hole(s, n) leaves of the hole map
pub open spec fn compressed(h: Map<usize, usize>, s: usize, n: usize) -> Map<usize, usize> {
    if !h.contains_key(s) { h } else if h[s] == n { h.remove(s) } else { h.remove(s).insert((s + n) as usize, (h[s] - n) as usize) }
}

// cutting the first n bytes off hole s: still separated, still disjoint from whatever h was disjoint from, covers exactly h minus [s, s+n)
pub proof fn lemma_compress(h: Map<usize, usize>, s: usize, n: usize)
    requires separated(h), h.contains_key(s), h[s] >= n, n > 0
    ensures
        separated(compressed(h, s, n)),
        forall|b: usize| #[trigger] compressed(h, s, n).contains_key(b) ==>
            (b != s && h.contains_key(b) && compressed(h, s, n)[b] == h[b]) || (h[s] != n && b == s + n && compressed(h, s, n)[b] == h[s] - n),
        forall|x: int| covers(compressed(h, s, n), x) <==> (covers(h, x) && !(s <= x < s + n)),
{
    let h1 = compressed(h, s, n);
    assert(pairwise_disjoint(h)) by {
        assert forall|a: usize, b: usize| h.contains_key(a) && h.contains_key(b) && a < b implies a + h[a] <= b by { assert(a + h[a] < b); }
    }
    assert forall|a: usize| #[trigger] h1.contains_key(a) implies h1[a] > 0 && a + h1[a] <= usize::MAX by { if a != s + n || h[s] == n { assert(h.contains_key(a)); } }
    assert forall|a: usize, b: usize| h1.contains_key(a) && h1.contains_key(b) && a < b implies a + h1[a] < b by {
        if h[s] != n && a == s + n { assert(h.contains_key(b) && b != s); assert(s < b); assert(s + h[s] < b); }
        else if h[s] != n && b == s + n { assert(h.contains_key(a) && a != s); if a < s { assert(a + h[a] < s); } else { assert(s + h[s] < a); } }
        else { assert(h.contains_key(a) && h.contains_key(b)); }
    }
    assert forall|x: int| covers(h1, x) <==> (covers(h, x) && !(s <= x < s + n)) by {
        lemma_cover_remove(h, s, x);
        if h[s] != n { lemma_cover_insert(h.remove(s), (s + n) as usize, (h[s] - n) as usize, x); }
        if s <= x < s + h[s] { assert(h.contains_key(s) && s <= x < s + h[s]); }
    }
}

pub proof fn lemma_compress_disjoint(m: Map<usize, usize>, h: Map<usize, usize>, s: usize, n: usize)
    requires separated(h), h.contains_key(s), h[s] >= n, n > 0, disjoint_maps(m, h)
    ensures disjoint_maps(m, compressed(h, s, n))
{
    let h1 = compressed(h, s, n);
    lemma_compress(h, s, n);
    assert forall|a: usize, b: usize| m.contains_key(a) && h1.contains_key(b) implies (a + m[a] <= b || b + h1[b] <= a) by {
        if h[s] != n && b == s + n { assert(h.contains_key(s)); assert(a + m[a] <= s || s + h[s] <= a); } else { assert(h.contains_key(b)); }
    }
}

// L0: this region's own extent
pub proof fn lemma_me(o: Map<usize, usize>, k: usize, s: usize, h: Map<usize, usize>, p: Map<usize, usize>, v: Map<usize, usize>)
    requires tiles4(o.insert(k, s), h, p, v)
    ensures s > 0, k + s <= usize::MAX, cover4(o.insert(k, s), h, p, v, k + s - 1), cover4(o.insert(k, s), h, p, v, k as int)
{
    let r = o.insert(k, s);
    assert(r.contains_key(k) && r[k] == s);
    assert(r.contains_key(k) && k <= k + s - 1 < k + r[k]);
    assert(r.contains_key(k) && k <= k < k + r[k]);
}

// L1: the region that is last of everything grows in place
pub proof fn lemma_grow_last(o: Map<usize, usize>, k: usize, s: usize, s2: usize, h: Map<usize, usize>, p: Map<usize, usize>, v: Map<usize, usize>)
    requires
        tiles4(o.insert(k, s), h, p, v), !o.contains_key(k), s <= s2, k + s2 <= usize::MAX,
        forall|b: usize| o.contains_key(b) ==> b < k, forall|b: usize| h.contains_key(b) ==> b < k,
        forall|b: usize| p.contains_key(b) ==> b < k, forall|b: usize| v.contains_key(b) ==> b < k,
    ensures
        tiles4(o.insert(k, s2), h, p, v),
        forall|x: int| cover4(o.insert(k, s2), h, p, v, x) <==> (cover4(o.insert(k, s), h, p, v, x) || k <= x < k + s2),
{
    let r0 = o.insert(k, s);
    let r1 = o.insert(k, s2);
    lemma_me(o, k, s, h, p, v);
    assert(r0.contains_key(k) && r0[k] == s);
    assert(pairwise_disjoint(r1)) by {
        assert forall|a: usize| #[trigger] r1.contains_key(a) implies r1[a] > 0 && a + r1[a] <= usize::MAX by { if a != k { assert(r0.contains_key(a)); } }
        assert forall|a: usize, b: usize| r1.contains_key(a) && r1.contains_key(b) && a < b implies a + r1[a] <= b by {
            if b == k { assert(r0.contains_key(a) && r0.contains_key(k)); } else { assert(o.contains_key(b)); assert(a != k); assert(r0.contains_key(a) && r0.contains_key(b)); }
        }
    }
    assert(disjoint_maps(r1, h)) by { assert forall|a: usize, b: usize| r1.contains_key(a) && h.contains_key(b) implies (a + r1[a] <= b || b + h[b] <= a) by {
        if a == k { assert(r0.contains_key(k) && h.contains_key(b)); assert(k + s <= b || b + h[b] <= k); } else { assert(r0.contains_key(a)); } } }
    assert(disjoint_maps(r1, p)) by { assert forall|a: usize, b: usize| r1.contains_key(a) && p.contains_key(b) implies (a + r1[a] <= b || b + p[b] <= a) by {
        if a == k { assert(r0.contains_key(k) && p.contains_key(b)); assert(k + s <= b || b + p[b] <= k); } else { assert(r0.contains_key(a)); } } }
    assert(disjoint_maps(r1, v)) by { assert forall|a: usize, b: usize| r1.contains_key(a) && v.contains_key(b) implies (a + r1[a] <= b || b + v[b] <= a) by {
        if a == k { assert(r0.contains_key(k) && v.contains_key(b)); assert(k + s <= b || b + v[b] <= k); } else { assert(r0.contains_key(a)); } } }
    assert forall|x: int| cover4(r1, h, p, v, x) <==> (cover4(r0, h, p, v, x) || k <= x < k + s2) by {
        lemma_cover_insert(o, k, s, x); lemma_cover_insert(o, k, s2, x);
    }
    assert forall|x: int, y: int| 0 <= x <= y && #[trigger] cover4(r1, h, p, v, y) implies #[trigger] cover4(r1, h, p, v, x) by {
        if cover4(r0, h, p, v, y) { assert(cover4(r0, h, p, v, x)); }
        else if x < k { assert(cover4(r0, h, p, v, k as int)); assert(cover4(r0, h, p, v, x)); }
    }
}

// L2: the region grows into the hole that starts where it ends
pub proof fn lemma_grow_into_hole(o: Map<usize, usize>, k: usize, s: usize, add: usize, h: Map<usize, usize>, p: Map<usize, usize>, v: Map<usize, usize>)
    requires
        tiles4(o.insert(k, s), h, p, v), !o.contains_key(k), k + s <= usize::MAX,
        h.contains_key((k + s) as usize), h[(k + s) as usize] >= add, add > 0,
    ensures
        k + s + add <= usize::MAX,
        tiles4(o.insert(k, (s + add) as usize), compressed(h, (k + s) as usize, add), p, v),
        forall|x: int| cover4(o.insert(k, (s + add) as usize), compressed(h, (k + s) as usize, add), p, v, x) <==> cover4(o.insert(k, s), h, p, v, x),
{
    let e = (k + s) as usize;
    let g = h[e];
    let r0 = o.insert(k, s);
    let s2 = (s + add) as usize;
    let r1 = o.insert(k, s2);
    let h1 = compressed(h, e, add);
    lemma_me(o, k, s, h, p, v);
    lemma_compress(h, e, add);
    lemma_compress_disjoint(p, h, e, add);
    assert(r0.contains_key(k) && r0[k] == s);
    assert(e + g <= usize::MAX);
    assert(pairwise_disjoint(r1)) by {
        assert forall|a: usize| #[trigger] r1.contains_key(a) implies r1[a] > 0 && a + r1[a] <= usize::MAX by { if a != k { assert(r0.contains_key(a)); } }
        assert forall|a: usize, b: usize| r1.contains_key(a) && r1.contains_key(b) && a < b implies a + r1[a] <= b by {
            if a == k { assert(r0.contains_key(k) && r0.contains_key(b)); assert(k + s <= b); assert(r0.contains_key(b) && h.contains_key(e)); assert(b + r0[b] <= e || e + g <= b); }
            else if b == k { assert(r0.contains_key(a) && r0.contains_key(k)); }
            else { assert(r0.contains_key(a) && r0.contains_key(b)); }
        }
    }
    assert(disjoint_maps(r1, h1)) by { assert forall|a: usize, b: usize| r1.contains_key(a) && h1.contains_key(b) implies (a + r1[a] <= b || b + h1[b] <= a) by {
        if a == k {
            if g != add && b == e + add { } else {
                assert(h.contains_key(b) && b != e && h1[b] == h[b]);
                assert(r0.contains_key(k) && h.contains_key(b)); assert(k + s <= b || b + h[b] <= k);
                if k + s <= b { assert(h.contains_key(e) && h.contains_key(b) && e < b); assert(e + g < b); }
            }
        } else {
            assert(r0.contains_key(a) && r1[a] == r0[a]);
            if g != add && b == e + add { assert(h.contains_key(e)); assert(a + r0[a] <= e || e + g <= a);
                if a + r0[a] <= e { assert(r0.contains_key(a) && r0.contains_key(k)); if a < k { assert(a + r0[a] <= k); } else { assert(k + s <= a); } } }
            else { assert(h.contains_key(b)); }
        }
    } }
    assert(disjoint_maps(r1, p)) by { assert forall|a: usize, b: usize| r1.contains_key(a) && p.contains_key(b) implies (a + r1[a] <= b || b + p[b] <= a) by {
        if a == k { assert(r0.contains_key(k) && p.contains_key(b)); assert(k + s <= b || b + p[b] <= k);
            if k + s <= b { assert(p.contains_key(b) && h.contains_key(e)); assert(b + p[b] <= e || e + g <= b); } }
        else { assert(r0.contains_key(a)); } } }
    assert(disjoint_maps(r1, v)) by { assert forall|a: usize, b: usize| r1.contains_key(a) && v.contains_key(b) implies (a + r1[a] <= b || b + v[b] <= a) by {
        if a == k { assert(r0.contains_key(k) && v.contains_key(b)); assert(k + s <= b || b + v[b] <= k);
            if k + s <= b { assert(v.contains_key(b) && h.contains_key(e)); assert(b + v[b] <= e || e + g <= b); } }
        else { assert(r0.contains_key(a)); } } }
    assert(disjoint_maps(v, h1)) by { assert forall|a: usize, b: usize| v.contains_key(a) && h1.contains_key(b) implies (a + v[a] <= b || b + h1[b] <= a) by {
        if g != add && b == e + add { assert(h.contains_key(e)); assert(a + v[a] <= e || e + g <= a);
            if a + v[a] <= e { assert(r0.contains_key(k) && v.contains_key(a)); assert(k + s <= a || a + v[a] <= k); } }
        else { assert(h.contains_key(b)); }
    } }
    assert forall|x: int| cover4(r1, h1, p, v, x) <==> cover4(r0, h, p, v, x) by {
        lemma_cover_insert(o, k, s, x); lemma_cover_insert(o, k, s2, x);
        if e <= x < e + g { assert(h.contains_key(e) && e <= x < e + h[e]); }
    }
    assert forall|x: int, y: int| 0 <= x <= y && #[trigger] cover4(r1, h1, p, v, y) implies #[trigger] cover4(r1, h1, p, v, x) by {
        assert(cover4(r0, h, p, v, y)); assert(cover4(r0, h, p, v, x));
    }
}

// L4: a reservation appended at the end of everything
pub proof fn lemma_append_reserve(r: Map<usize, usize>, h: Map<usize, usize>, p: Map<usize, usize>, v: Map<usize, usize>, e: usize, n: usize)
    requires
        tiles4(r, h, p, v), n > 0, e + n <= usize::MAX,
        forall|a: usize| r.contains_key(a) ==> a + r[a] <= e, forall|a: usize| h.contains_key(a) ==> a + h[a] <= e,
        forall|a: usize| p.contains_key(a) ==> a + p[a] <= e, forall|a: usize| v.contains_key(a) ==> a + v[a] <= e,
        e == 0 || cover4(r, h, p, v, e - 1),
    ensures
        !v.contains_key(e),
        tiles4(r, h, p, v.insert(e, n)),
        forall|x: int| cover4(r, h, p, v.insert(e, n), x) <==> (cover4(r, h, p, v, x) || e <= x < e + n),
{
    let v1 = v.insert(e, n);
    assert(!v.contains_key(e)) by { if v.contains_key(e) { assert(v[e] > 0); } }
    assert(pairwise_disjoint(v1)) by {
        assert forall|a: usize| #[trigger] v1.contains_key(a) implies v1[a] > 0 && a + v1[a] <= usize::MAX by { if a != e { assert(v.contains_key(a)); } }
        assert forall|a: usize, b: usize| v1.contains_key(a) && v1.contains_key(b) && a < b implies a + v1[a] <= b by {
            if a == e { assert(v.contains_key(b)); assert(v[b] > 0); } else if b == e { assert(v.contains_key(a)); } else { assert(v.contains_key(a) && v.contains_key(b)); }
        }
    }
    assert(disjoint_maps(r, v1)) by { assert forall|a: usize, b: usize| r.contains_key(a) && v1.contains_key(b) implies (a + r[a] <= b || b + v1[b] <= a) by { if b != e { assert(v.contains_key(b)); } } }
    assert(disjoint_maps(p, v1)) by { assert forall|a: usize, b: usize| p.contains_key(a) && v1.contains_key(b) implies (a + p[a] <= b || b + v1[b] <= a) by { if b != e { assert(v.contains_key(b)); } } }
    assert(disjoint_maps(v1, h)) by { assert forall|a: usize, b: usize| v1.contains_key(a) && h.contains_key(b) implies (a + v1[a] <= b || b + h[b] <= a) by { if a != e { assert(v.contains_key(a)); } } }
    assert forall|x: int| cover4(r, h, p, v1, x) <==> (cover4(r, h, p, v, x) || e <= x < e + n) by { lemma_cover_insert(v, e, n, x); }
    assert forall|x: int, y: int| 0 <= x <= y && #[trigger] cover4(r, h, p, v1, y) implies #[trigger] cover4(r, h, p, v1, x) by {
        if cover4(r, h, p, v, y) { assert(cover4(r, h, p, v, x)); }
        else if x < e { assert(cover4(r, h, p, v, e - 1)); assert(cover4(r, h, p, v, x)); }
    }
}

// the end of everything is page-aligned when every extent is
pub proof fn lemma_end_aligned(r: Map<usize, usize>, h: Map<usize, usize>, p: Map<usize, usize>, v: Map<usize, usize>, e: usize)
    requires
        aligned_map(r), aligned_map(h), aligned_map(p), aligned_map(v),
        forall|a: usize| r.contains_key(a) ==> a + r[a] <= e, forall|a: usize| h.contains_key(a) ==> a + h[a] <= e,
        forall|a: usize| p.contains_key(a) ==> a + p[a] <= e, forall|a: usize| v.contains_key(a) ==> a + v[a] <= e,
        e == 0 || cover4(r, h, p, v, e - 1),
    ensures e % 4096 == 0
{
    if e != 0 {
        let x = e - 1;
        if covers(r, x) { let a = choose|a: usize| r.contains_key(a) && a <= x < a + r[a]; assert(a + r[a] == e); }
        else if covers(h, x) { let a = choose|a: usize| h.contains_key(a) && a <= x < a + h[a]; assert(a + h[a] == e); }
        else if covers(p, x) { let a = choose|a: usize| p.contains_key(a) && a <= x < a + p[a]; assert(a + p[a] == e); }
        else { let a = choose|a: usize| v.contains_key(a) && a <= x < a + v[a]; assert(a + v[a] == e); }
    }
}

// L5: the move is published: the region is filed under its reservation, its old extent becomes a pending hole
pub proof fn lemma_finish_move(o: Map<usize, usize>, k: usize, s: usize, h: Map<usize, usize>, p: Map<usize, usize>, v: Map<usize, usize>, ns: usize, n: usize)
    requires tiles4(o.insert(k, s), h, p, v), !o.contains_key(k), v.contains_key(ns), v[ns] == n
    ensures
        !o.contains_key(ns), ns != k, !p.contains_key(k),
        tiles4(o.insert(ns, n), h, p.insert(k, s), v.remove(ns)),
        forall|x: int| cover4(o.insert(ns, n), h, p.insert(k, s), v.remove(ns), x) <==> cover4(o.insert(k, s), h, p, v, x),
{
    let r0 = o.insert(k, s);
    let r1 = o.insert(ns, n);
    let p1 = p.insert(k, s);
    let v1 = v.remove(ns);
    lemma_me(o, k, s, h, p, v);
    assert(r0.contains_key(k) && r0[k] == s);
    assert(n > 0 && ns + n <= usize::MAX);
    assert(ns != k) by { if ns == k { assert(r0.contains_key(k) && v.contains_key(ns)); assert(k + s <= ns || ns + n <= k); } }
    assert(!o.contains_key(ns)) by { if o.contains_key(ns) { assert(r0.contains_key(ns) && v.contains_key(ns)); assert(r0[ns] > 0); assert(ns + r0[ns] <= ns || ns + n <= ns); } }
    assert(!p.contains_key(k)) by { if p.contains_key(k) { assert(r0.contains_key(k) && p.contains_key(k)); assert(p[k] > 0); assert(k + s <= k || k + p[k] <= k); } }
    assert(pairwise_disjoint(r1)) by {
        assert forall|a: usize| #[trigger] r1.contains_key(a) implies r1[a] > 0 && a + r1[a] <= usize::MAX by { if a != ns { assert(r0.contains_key(a)); } }
        assert forall|a: usize, b: usize| r1.contains_key(a) && r1.contains_key(b) && a < b implies a + r1[a] <= b by {
            if a == ns { assert(r0.contains_key(b) && v.contains_key(ns)); assert(b + r0[b] <= ns || ns + n <= b); assert(r0[b] > 0); }
            else if b == ns { assert(r0.contains_key(a) && v.contains_key(ns)); assert(a + r0[a] <= ns || ns + n <= a); }
            else { assert(r0.contains_key(a) && r0.contains_key(b)); }
        }
    }
    assert(pairwise_disjoint(p1)) by {
        assert forall|a: usize| #[trigger] p1.contains_key(a) implies p1[a] > 0 && a + p1[a] <= usize::MAX by { if a != k { assert(p.contains_key(a)); } }
        assert forall|a: usize, b: usize| p1.contains_key(a) && p1.contains_key(b) && a < b implies a + p1[a] <= b by {
            if a == k { assert(r0.contains_key(k) && p.contains_key(b)); assert(k + s <= b || b + p[b] <= k); assert(p[b] > 0); }
            else if b == k { assert(r0.contains_key(k) && p.contains_key(a)); assert(k + s <= a || a + p[a] <= k); }
            else { assert(p.contains_key(a) && p.contains_key(b)); }
        }
    }
    assert(pairwise_disjoint(v1)) by {
        assert forall|a: usize| #[trigger] v1.contains_key(a) implies v1[a] > 0 && a + v1[a] <= usize::MAX by { assert(v.contains_key(a)); }
        assert forall|a: usize, b: usize| v1.contains_key(a) && v1.contains_key(b) && a < b implies a + v1[a] <= b by { assert(v.contains_key(a) && v.contains_key(b)); }
    }
    assert(disjoint_maps(r1, h)) by { assert forall|a: usize, b: usize| r1.contains_key(a) && h.contains_key(b) implies (a + r1[a] <= b || b + h[b] <= a) by {
        if a == ns { assert(v.contains_key(ns) && h.contains_key(b)); } else { assert(r0.contains_key(a)); } } }
    assert(disjoint_maps(r1, p1)) by { assert forall|a: usize, b: usize| r1.contains_key(a) && p1.contains_key(b) implies (a + r1[a] <= b || b + p1[b] <= a) by {
        if a == ns && b == k { assert(r0.contains_key(k) && v.contains_key(ns)); }
        else if a == ns { assert(p.contains_key(b) && v.contains_key(ns)); }
        else if b == k { assert(r0.contains_key(a) && r0.contains_key(k)); if a < k { assert(a + r0[a] <= k); } else { assert(k + s <= a); } }
        else { assert(r0.contains_key(a) && p.contains_key(b)); }
    } }
    assert(disjoint_maps(r1, v1)) by { assert forall|a: usize, b: usize| r1.contains_key(a) && v1.contains_key(b) implies (a + r1[a] <= b || b + v1[b] <= a) by {
        assert(v.contains_key(b) && b != ns);
        if a == ns { assert(v.contains_key(ns) && v.contains_key(b)); if ns < b { assert(ns + n <= b); } else { assert(b + v[b] <= ns); } }
        else { assert(r0.contains_key(a)); }
    } }
    assert(disjoint_maps(p1, h)) by { assert forall|a: usize, b: usize| p1.contains_key(a) && h.contains_key(b) implies (a + p1[a] <= b || b + h[b] <= a) by {
        if a == k { assert(r0.contains_key(k) && h.contains_key(b)); } else { assert(p.contains_key(a)); } } }
    assert(disjoint_maps(v1, h)) by { assert forall|a: usize, b: usize| v1.contains_key(a) && h.contains_key(b) implies (a + v1[a] <= b || b + h[b] <= a) by { assert(v.contains_key(a)); } }
    assert(disjoint_maps(p1, v1)) by { assert forall|a: usize, b: usize| p1.contains_key(a) && v1.contains_key(b) implies (a + p1[a] <= b || b + v1[b] <= a) by {
        assert(v.contains_key(b));
        if a == k { assert(r0.contains_key(k) && v.contains_key(b)); } else { assert(p.contains_key(a)); } } }
    assert(pairwise_disjoint(v)); 
    assert forall|x: int| cover4(r1, h, p1, v1, x) <==> cover4(r0, h, p, v, x) by {
        lemma_cover_insert(o, k, s, x); lemma_cover_insert(o, ns, n, x); lemma_cover_insert(p, k, s, x); lemma_cover_remove(v, ns, x);
        if ns <= x < ns + n { assert(v.contains_key(ns) && ns <= x < ns + v[ns]); }
    }
    assert forall|x: int, y: int| 0 <= x <= y && #[trigger] cover4(r1, h, p1, v1, y) implies #[trigger] cover4(r1, h, p1, v1, x) by {
        assert(cover4(r0, h, p, v, y)); assert(cover4(r0, h, p, v, x));
    }
}

pub proof fn lemma_compress_aligned(h: Map<usize, usize>, s: usize, n: usize)
    requires separated(h), h.contains_key(s), h[s] >= n, n > 0, aligned_map(h), n % 4096 == 0
    ensures aligned_map(compressed(h, s, n))
{
    lemma_compress(h, s, n);
    let h1 = compressed(h, s, n);
    assert forall|a: usize| #[trigger] h1.contains_key(a) implies a % 4096 == 0 && h1[a] % 4096 == 0 by {
        assert(h.contains_key(s));
        if h[s] != n && a == s + n { assert(s % 4096 == 0 && h[s] % 4096 == 0); } else { assert(h.contains_key(a)); }
    }
}

// the parts of tiles4 that the layout methods' preconditions name
pub proof fn lemma_tiles_parts(r: Map<usize, usize>, h: Map<usize, usize>, p: Map<usize, usize>, v: Map<usize, usize>)
    requires tiles4(r, h, p, v)
    ensures separated(h), pairwise_disjoint(r), pairwise_disjoint(h), pairwise_disjoint(p), pairwise_disjoint(v)
{
    assert forall|a: usize, b: usize| h.contains_key(a) && h.contains_key(b) && a < b implies a + h[a] <= b by { assert(a + h[a] < b); }
}

// a reservation lies beside this region's extent and inside the covered part of the file
pub proof fn lemma_resv(o: Map<usize, usize>, k: usize, s: usize, h: Map<usize, usize>, p: Map<usize, usize>, v: Map<usize, usize>, ns: usize)
    requires tiles4(o.insert(k, s), h, p, v), v.contains_key(ns)
    ensures v[ns] > 0, ns + v[ns] <= usize::MAX, k + s <= ns || ns + v[ns] <= k, cover4(o.insert(k, s), h, p, v, ns + v[ns] - 1)
{
    let r = o.insert(k, s);
    assert(r.contains_key(k) && r[k] == s);
    assert(r.contains_key(k) && v.contains_key(ns));
    assert(v.contains_key(ns) && ns <= ns + v[ns] - 1 < ns + v[ns]);
}

// L8: a reservation becomes a live region in place (creation = L3/L4 followed by this)
pub proof fn lemma_reserved_to_region(o: Map<usize, usize>, h: Map<usize, usize>, p: Map<usize, usize>, v: Map<usize, usize>, ns: usize)
    requires tiles4(o, h, p, v), v.contains_key(ns)
    ensures
        !o.contains_key(ns),
        tiles4(o.insert(ns, v[ns]), h, p, v.remove(ns)),
        forall|x: int| cover4(o.insert(ns, v[ns]), h, p, v.remove(ns), x) <==> cover4(o, h, p, v, x),
{
    let n = v[ns];
    let r1 = o.insert(ns, n);
    let v1 = v.remove(ns);
    assert(n > 0 && ns + n <= usize::MAX);
    assert(!o.contains_key(ns)) by { if o.contains_key(ns) { assert(o.contains_key(ns) && v.contains_key(ns)); assert(o[ns] > 0); assert(ns + o[ns] <= ns || ns + n <= ns); } }
    assert(pairwise_disjoint(r1)) by {
        assert forall|a: usize| #[trigger] r1.contains_key(a) implies r1[a] > 0 && a + r1[a] <= usize::MAX by { if a != ns { assert(o.contains_key(a)); } }
        assert forall|a: usize, b: usize| r1.contains_key(a) && r1.contains_key(b) && a < b implies a + r1[a] <= b by {
            if a == ns { assert(o.contains_key(b) && v.contains_key(ns)); assert(b + o[b] <= ns || ns + n <= b); assert(o[b] > 0); }
            else if b == ns { assert(o.contains_key(a) && v.contains_key(ns)); assert(a + o[a] <= ns || ns + n <= a); }
            else { assert(o.contains_key(a) && o.contains_key(b)); }
        }
    }
    assert(pairwise_disjoint(v1)) by {
        assert forall|a: usize| #[trigger] v1.contains_key(a) implies v1[a] > 0 && a + v1[a] <= usize::MAX by { assert(v.contains_key(a)); }
        assert forall|a: usize, b: usize| v1.contains_key(a) && v1.contains_key(b) && a < b implies a + v1[a] <= b by { assert(v.contains_key(a) && v.contains_key(b)); }
    }
    assert(disjoint_maps(r1, h)) by { assert forall|a: usize, b: usize| r1.contains_key(a) && h.contains_key(b) implies (a + r1[a] <= b || b + h[b] <= a) by {
        if a == ns { assert(v.contains_key(ns) && h.contains_key(b)); } else { assert(o.contains_key(a)); } } }
    assert(disjoint_maps(r1, p)) by { assert forall|a: usize, b: usize| r1.contains_key(a) && p.contains_key(b) implies (a + r1[a] <= b || b + p[b] <= a) by {
        if a == ns { assert(p.contains_key(b) && v.contains_key(ns)); } else { assert(o.contains_key(a)); } } }
    assert(disjoint_maps(r1, v1)) by { assert forall|a: usize, b: usize| r1.contains_key(a) && v1.contains_key(b) implies (a + r1[a] <= b || b + v1[b] <= a) by {
        assert(v.contains_key(b) && b != ns);
        if a == ns { assert(v.contains_key(ns) && v.contains_key(b)); if ns < b { assert(ns + n <= b); } else { assert(b + v[b] <= ns); } }
        else { assert(o.contains_key(a)); }
    } }
    assert(disjoint_maps(v1, h)) by { assert forall|a: usize, b: usize| v1.contains_key(a) && h.contains_key(b) implies (a + v1[a] <= b || b + h[b] <= a) by { assert(v.contains_key(a)); } }
    assert(disjoint_maps(p, v1)) by { assert forall|a: usize, b: usize| p.contains_key(a) && v1.contains_key(b) implies (a + p[a] <= b || b + v1[b] <= a) by { assert(v.contains_key(b)); } }
    assert forall|x: int| cover4(r1, h, p, v1, x) <==> cover4(o, h, p, v, x) by {
        lemma_cover_insert(o, ns, n, x); lemma_cover_remove(v, ns, x);
        if ns <= x < ns + n { assert(v.contains_key(ns) && ns <= x < ns + v[ns]); }
    }
    assert forall|x: int, y: int| 0 <= x <= y && #[trigger] cover4(r1, h, p, v1, y) implies #[trigger] cover4(r1, h, p, v1, x) by {
        assert(cover4(o, h, p, v, y)); assert(cover4(o, h, p, v, x));
    }
}

// the end of everything is determined by the four maps
pub proof fn lemma_end_unique(r: Map<usize, usize>, h: Map<usize, usize>, p: Map<usize, usize>, v: Map<usize, usize>, e1: usize, e2: usize)
    requires
        forall|a: usize| r.contains_key(a) ==> a + r[a] <= e2, forall|a: usize| h.contains_key(a) ==> a + h[a] <= e2,
        forall|a: usize| p.contains_key(a) ==> a + p[a] <= e2, forall|a: usize| v.contains_key(a) ==> a + v[a] <= e2,
        e1 == 0 || cover4(r, h, p, v, e1 - 1),
    ensures e1 <= e2
{
    if e1 != 0 {
        let x = e1 - 1;
        if covers(r, x) { let a = choose|a: usize| r.contains_key(a) && a <= x < a + r[a]; assert(a + r[a] <= e2); }
        else if covers(h, x) { let a = choose|a: usize| h.contains_key(a) && a <= x < a + h[a]; assert(a + h[a] <= e2); }
        else if covers(p, x) { let a = choose|a: usize| p.contains_key(a) && a <= x < a + p[a]; assert(a + p[a] <= e2); }
        else { let a = choose|a: usize| v.contains_key(a) && a <= x < a + v[a]; assert(a + v[a] <= e2); }
    }
}
