// U1 spec vocabulary (DESIGN.md section 4, rawdb)
pub open spec fn index_ok(h: Map<usize, usize>, idx: Map<usize, Vec<usize>>) -> bool {
    &&& forall|s: usize| #[trigger] h.contains_key(s) ==> idx.contains_key(h[s]) && idx[h[s]]@.contains(s)
    &&& forall|sz: usize, i: int| idx.contains_key(sz) && 0 <= i < idx[sz]@.len() ==> h.contains_key(#[trigger] idx[sz]@[i]) && h[idx[sz]@[i]] == sz
    &&& forall|sz: usize| #[trigger] idx.contains_key(sz) ==> idx[sz]@.len() > 0 && idx[sz]@.no_duplicates()
}

// holes are non-empty, do not overflow, are pairwise disjoint AND non-adjacent (merged)
pub open spec fn separated(h: Map<usize, usize>) -> bool {
    &&& forall|a: usize| #[trigger] h.contains_key(a) ==> h[a] > 0 && a + h[a] <= usize::MAX
    &&& forall|a: usize, b: usize| h.contains_key(a) && h.contains_key(b) && a < b ==> a + h[a] < b
}

pub open spec fn disjoint_maps(p: Map<usize, usize>, h: Map<usize, usize>) -> bool {
    forall|a: usize, b: usize| p.contains_key(a) && h.contains_key(b) ==> (a + p[a] <= b || b + h[b] <= a)
}

pub open spec fn pairwise_disjoint(p: Map<usize, usize>) -> bool {
    &&& forall|a: usize| #[trigger] p.contains_key(a) ==> p[a] > 0 && a + p[a] <= usize::MAX
    &&& forall|a: usize, b: usize| p.contains_key(a) && p.contains_key(b) && a < b ==> a + p[a] <= b
}

pub open spec fn covers(m: Map<usize, usize>, x: int) -> bool {
    exists|a: usize| m.contains_key(a) && a <= x < a + m[a]
}

// ---- lemmas about the inverse index ----
pub proof fn lemma_index_insert(h0: Map<usize, usize>, i0: Map<usize, Vec<usize>>, h1: Map<usize, usize>, i1: Map<usize, Vec<usize>>, start: usize, size: usize)
    requires
        index_ok(h0, i0), !h0.contains_key(start),
        h1 == h0.insert(start, size),
        i1.dom() == i0.dom().insert(size),
        forall|j: usize| j != size && i0.contains_key(j) ==> i1[j] == i0[j],
        i1[size]@ == (if i0.contains_key(size) { i0[size]@ } else { Seq::<usize>::empty() }).push(start),
    ensures index_ok(h1, i1)
{
    assert forall|s: usize| #[trigger] h1.contains_key(s) implies i1.contains_key(h1[s]) && i1[h1[s]]@.contains(s) by {
        if s == start { assert(i1[size]@[i1[size]@.len() - 1] == start); }
        else {
            assert(h0.contains_key(s));
            if h0[s] == size {
                let j = choose|j: int| 0 <= j < i0[size]@.len() && i0[size]@[j] == s;
                assert(i1[size]@[j] == s);
            }
        }
    }
    assert forall|sz: usize, i: int| i1.contains_key(sz) && 0 <= i < i1[sz]@.len() implies h1.contains_key(#[trigger] i1[sz]@[i]) && h1[i1[sz]@[i]] == sz by {
        if sz == size {
            if i < i1[sz]@.len() - 1 { assert(i0.contains_key(sz)); assert(i1[sz]@[i] == i0[sz]@[i]); assert(h0.contains_key(i0[sz]@[i])); }
        } else { assert(i1[sz] == i0[sz]); assert(h0.contains_key(i0[sz]@[i])); }
    }
    assert forall|sz: usize| #[trigger] i1.contains_key(sz) implies i1[sz]@.len() > 0 && i1[sz]@.no_duplicates() by {
        if sz == size {
            if i0.contains_key(size) {
                assert forall|i: int, j: int| 0 <= i < i1[sz]@.len() && 0 <= j < i1[sz]@.len() && i != j implies i1[sz]@[i] != i1[sz]@[j] by {
                    if i == i1[sz]@.len() - 1 { assert(h0.contains_key(i0[sz]@[j])); }
                    else if j == i1[sz]@.len() - 1 { assert(h0.contains_key(i0[sz]@[i])); }
                }
            }
        } else { assert(i1[sz] == i0[sz]); }
    }
}

// what `retain(|s| *s != start)` leaves, from the one-directional closure facts
pub open spec fn retained_ne(before: Seq<usize>, after: Seq<usize>, start: usize) -> bool {
    &&& forall|x: usize| before.contains(x) && x != start ==> after.contains(x)
    &&& forall|i: int| 0 <= i < after.len() ==> before.contains(#[trigger] after[i]) && after[i] != start
    &&& (before.no_duplicates() ==> after.no_duplicates())
}

pub proof fn lemma_retain_ne(before: Seq<usize>, after: Seq<usize>, start: usize)
    requires
        forall|i: int| 0 <= i < after.len() ==> before.contains(#[trigger] after[i]) && after[i] != start,
        forall|x: usize| #[trigger] before.contains(x) && !after.contains(x) ==> x == start,
        before.no_duplicates() ==> after.no_duplicates(),
    ensures retained_ne(before, after, start)
{
}

pub proof fn lemma_index_remove(h0: Map<usize, usize>, i0: Map<usize, Vec<usize>>, h1: Map<usize, usize>, i1: Map<usize, Vec<usize>>, start: usize, size: usize)
    requires
        index_ok(h0, i0), h0.contains_key(start), h0[start] == size,
        h1 == h0.remove(start),
        forall|j: usize| j != size ==> (i1.contains_key(j) <==> i0.contains_key(j)),
        forall|j: usize| j != size && i0.contains_key(j) ==> i1[j] == i0[j],
        i1.contains_key(size) ==> retained_ne(i0[size]@, i1[size]@, start) && i1[size]@.len() > 0,
        !i1.contains_key(size) ==> (forall|x: usize| i0[size]@.contains(x) ==> x == start),
    ensures index_ok(h1, i1)
{
    assert(i0.contains_key(size));
    assert forall|s: usize| #[trigger] h1.contains_key(s) implies i1.contains_key(h1[s]) && i1[h1[s]]@.contains(s) by {
        assert(h0.contains_key(s) && s != start);
        assert(i0.contains_key(h0[s]) && i0[h0[s]]@.contains(s));
        if h0[s] == size {
            assert(i1.contains_key(size));
        } else {
            assert(i1.contains_key(h0[s]));
            assert(i1[h0[s]] == i0[h0[s]]);
        }
    }
    assert forall|sz: usize, i: int| i1.contains_key(sz) && 0 <= i < i1[sz]@.len() implies h1.contains_key(#[trigger] i1[sz]@[i]) && h1[i1[sz]@[i]] == sz by {
        if sz == size {
            assert(i0[size]@.contains(i1[sz]@[i]));
            let j = choose|j: int| 0 <= j < i0[size]@.len() && i0[size]@[j] == i1[sz]@[i];
            assert(h0.contains_key(i0[size]@[j]));
        } else { assert(h0.contains_key(i0[sz]@[i])); }
    }
    assert forall|sz: usize| #[trigger] i1.contains_key(sz) implies i1[sz]@.len() > 0 && i1[sz]@.no_duplicates() by {
        if sz != size { assert(i1[sz] == i0[sz]); }
    }
}


// ---- extents of live regions as the layout sees them ----
pub open spec fn region_ext(m: Map<usize, Region>) -> Map<usize, usize> {
    m.map_values(|r: Region| r.m_reserved())
}

// every region is filed under its own metadata start
pub open spec fn keyed(m: Map<usize, Region>) -> bool {
    forall|s: usize| #[trigger] m.contains_key(s) ==> m[s].m_start() == s
}

pub open spec fn cover4(r: Map<usize, usize>, h: Map<usize, usize>, p: Map<usize, usize>, v: Map<usize, usize>, x: int) -> bool {
    covers(r, x) || covers(h, x) || covers(p, x) || covers(v, x)
}

// the four extent maps (live regions, holes, pending holes, reservations) are internally and mutually disjoint,
// holes are merged, and nothing below the highest covered byte is uncovered (no lost space).
pub open spec fn tiles4(r: Map<usize, usize>, h: Map<usize, usize>, p: Map<usize, usize>, v: Map<usize, usize>) -> bool {
    &&& pairwise_disjoint(r) && separated(h) && pairwise_disjoint(p) && pairwise_disjoint(v)
    &&& disjoint_maps(r, h) && disjoint_maps(r, p) && disjoint_maps(r, v)
    &&& disjoint_maps(p, h) && disjoint_maps(v, h) && disjoint_maps(p, v)
    &&& forall|x: int, y: int| 0 <= x <= y && #[trigger] cover4(r, h, p, v, y) ==> #[trigger] cover4(r, h, p, v, x)
}

pub open spec fn aligned_map(m: Map<usize, usize>) -> bool {
    forall|a: usize| #[trigger] m.contains_key(a) ==> a % 4096 == 0 && m[a] % 4096 == 0
}

// One iteration of promote_pending_holes, as a statement about maps.
//   h0  holes before the step      pend  pending set before the step (its least key is `start`)
//   fs  the `final_start` the code computed: the start of the hole ending exactly at `start`, else `start`
// the code then also swallows the hole beginning at `start + size0` (if any)
pub open spec fn promote_step_holes(h0: Map<usize, usize>, start: usize, size0: usize, fs: usize) -> Map<usize, usize> {
    let mid = if fs != start { h0.remove(fs) } else { h0 };
    let e = (start + size0) as usize;
    let sz: usize = ((e - fs) + (if mid.contains_key(e) { mid[e] as int } else { 0 })) as usize;
    mid.remove(e).insert(fs, sz)
}

pub proof fn lemma_promote_step(h0: Map<usize, usize>, pend: Map<usize, usize>, start: usize, size0: usize, fs: usize)
    requires
        separated(h0), pairwise_disjoint(pend), disjoint_maps(pend, h0),
        pend.contains_key(start), pend[start] == size0,
        forall|j: usize| pend.contains_key(j) ==> start <= j,
        fs != start ==> h0.contains_key(fs) && fs + h0[fs] == start,
        fs == start ==> forall|b: usize| h0.contains_key(b) && b < start ==> b + h0[b] != start,
    ensures
        ({
            let h1 = promote_step_holes(h0, start, size0, fs);
            let p1 = pend.remove(start);
            &&& separated(h1)
            &&& pairwise_disjoint(p1)
            &&& disjoint_maps(p1, h1)
            &&& forall|x: int| (covers(h1, x) || covers(p1, x)) <==> (covers(h0, x) || covers(pend, x))
        }),
{
    let merged_before = fs != start;
    let mid = if merged_before { h0.remove(fs) } else { h0 };
    let e = (start + size0) as usize;
    let after = mid.contains_key(e);
    let sz: usize = ((e - fs) + (if after { mid[e] as int } else { 0 })) as usize;
    let h1 = mid.remove(e).insert(fs, sz);
    let p1 = pend.remove(start);
    assert(h1 == promote_step_holes(h0, start, size0, fs));
    assert(size0 > 0 && start + size0 <= usize::MAX);
    if merged_before { assert(h0[fs] > 0); }
    if after { assert(h0.contains_key(e)); assert(e + h0[e] <= usize::MAX); }
    // every other hole of h0 is strictly left of fs or strictly right of fs+sz
    assert forall|b: usize| h0.contains_key(b) && b != fs && b != e implies (b + h0[b] < fs || fs + sz < b) by {
        if b < start {
            assert(b + h0[b] <= start) by { assert(pend.contains_key(start) && h0.contains_key(b)); }
            if merged_before {
                // two holes of a separated map cannot both reach `start`
                if b < fs { assert(b + h0[b] < fs); } else { assert(fs < b); assert(fs + h0[fs] < b); }
            }
        } else {
            assert(pend.contains_key(start) && h0.contains_key(b));
            assert(b >= e);
            if after { assert(h0.contains_key(e) && e < b); assert(e + h0[e] < b); }
        }
    }
    assert(separated(h1)) by {
        assert forall|a: usize| #[trigger] h1.contains_key(a) implies h1[a] > 0 && a + h1[a] <= usize::MAX by {
            if a != fs { assert(h0.contains_key(a)); }
        }
        assert forall|a: usize, b: usize| h1.contains_key(a) && h1.contains_key(b) && a < b implies a + h1[a] < b by {
            if a == fs { assert(h0.contains_key(b) && b != fs && b != e); }
            else if b == fs { assert(h0.contains_key(a) && a != fs && a != e); }
            else { assert(h0.contains_key(a) && h0.contains_key(b)); }
        }
    }
    assert(disjoint_maps(p1, h1)) by {
        assert forall|q: usize, b: usize| p1.contains_key(q) && h1.contains_key(b) implies (q + p1[q] <= b || b + h1[b] <= q) by {
            assert(pend.contains_key(q) && q != start && start < q);
            assert(start + size0 <= q);
            if b == fs {
                if after { assert(h0.contains_key(e)); assert(q + pend[q] <= e || e + h0[e] <= q); }
            } else { assert(h0.contains_key(b)); }
        }
    }
    assert forall|x: int| (covers(h1, x) || covers(p1, x)) <==> (covers(h0, x) || covers(pend, x)) by {
        if covers(h1, x) {
            let a = choose|a: usize| h1.contains_key(a) && a <= x < a + h1[a];
            if a == fs {
                if x < start { assert(merged_before); assert(h0.contains_key(fs) && fs <= x < fs + h0[fs]); }
                else if x < e { assert(pend.contains_key(start) && start <= x < start + pend[start]); }
                else { assert(after); assert(h0.contains_key(e) && e <= x < e + h0[e]); }
            } else { assert(h0.contains_key(a) && a <= x < a + h0[a]); }
        }
        if covers(p1, x) {
            let a = choose|a: usize| p1.contains_key(a) && a <= x < a + p1[a];
            assert(pend.contains_key(a) && a <= x < a + pend[a]);
        }
        if covers(h0, x) {
            let a = choose|a: usize| h0.contains_key(a) && a <= x < a + h0[a];
            if a != fs && a != e { assert(h1.contains_key(a) && h1[a] == h0[a] && a <= x < a + h1[a]); }
            else {
                if a == e && a != fs { assert(after); }
                assert(h1.contains_key(fs) && fs <= x < fs + h1[fs]);
            }
        }
        if covers(pend, x) {
            let a = choose|a: usize| pend.contains_key(a) && a <= x < a + pend[a];
            if a == start { assert(h1.contains_key(fs) && fs <= x < fs + h1[fs]); }
            else { assert(p1.contains_key(a) && a <= x < a + p1[a]); }
        }
    }
}

// in a pairwise-disjoint extent map the extent with the greatest start also has the greatest end
pub proof fn lemma_last_is_max(m: Map<usize, usize>)
    requires pairwise_disjoint(m)
    ensures forall|a: usize, b: usize| m.contains_key(a) && m.contains_key(b) && b <= a ==> b + m[b] <= a + m[a]
{
}

// ---- tiling lemmas: what the per-method view changes mean for the partition of the file ----

// two extents that overlap share their larger start
pub proof fn lemma_overlap_point(m1: Map<usize, usize>, a: usize, m2: Map<usize, usize>, b: usize)
    requires m1.contains_key(a), m2.contains_key(b), m1[a] > 0, m2[b] > 0, !(a + m1[a] <= b || b + m2[b] <= a)
    ensures ({ let x: int = if a <= b { b as int } else { a as int }; covers(m1, x) && covers(m2, x) })
{
    let x: int = if a <= b { b as int } else { a as int };
    assert(m1.contains_key(a) && a <= x < a + m1[a]);
    assert(m2.contains_key(b) && b <= x < b + m2[b]);
}

// an extent map disjoint from h and from p is disjoint from any h1 that covers at most what h and p covered
pub proof fn lemma_disjoint_by_cover(r: Map<usize, usize>, h: Map<usize, usize>, p: Map<usize, usize>, h1: Map<usize, usize>)
    requires
        pairwise_disjoint(r), disjoint_maps(r, h), disjoint_maps(r, p),
        forall|a: usize| #[trigger] h1.contains_key(a) ==> h1[a] > 0,
        forall|x: int| covers(h1, x) ==> (covers(h, x) || covers(p, x)),
    ensures disjoint_maps(r, h1)
{
    assert forall|a: usize, b: usize| r.contains_key(a) && h1.contains_key(b) implies (a + r[a] <= b || b + h1[b] <= a) by {
        if !(a + r[a] <= b || b + h1[b] <= a) {
            lemma_overlap_point(r, a, h1, b);
            let x: int = if a <= b { b as int } else { a as int };
            assert(covers(h, x) || covers(p, x));
            if covers(h, x) {
                let c = choose|c: usize| h.contains_key(c) && c <= x < c + h[c];
                assert(a + r[a] <= c || c + h[c] <= a);
            } else {
                let c = choose|c: usize| p.contains_key(c) && c <= x < c + p[c];
                assert(a + r[a] <= c || c + p[c] <= a);
            }
        }
    }
}

// promote_pending_holes keeps the partition: same bytes covered, pending emptied, holes merged
pub proof fn lemma_promote_tiles(r: Map<usize, usize>, h: Map<usize, usize>, p: Map<usize, usize>, v: Map<usize, usize>, h1: Map<usize, usize>)
    requires
        tiles4(r, h, p, v), separated(h1),
        forall|x: int| covers(h1, x) <==> (covers(h, x) || covers(p, x)),
    ensures tiles4(r, h1, Map::<usize, usize>::empty(), v)
{
    let e = Map::<usize, usize>::empty();
    lemma_disjoint_by_cover(r, h, p, h1);
    // v against h1: same argument with the roles swapped (disjoint_maps is stated (first, second))
    assert(disjoint_maps(v, h1)) by {
        assert forall|a: usize, b: usize| v.contains_key(a) && h1.contains_key(b) implies (a + v[a] <= b || b + h1[b] <= a) by {
            if !(a + v[a] <= b || b + h1[b] <= a) {
                lemma_overlap_point(v, a, h1, b);
                let x: int = if a <= b { b as int } else { a as int };
                if covers(h, x) {
                    let c = choose|c: usize| h.contains_key(c) && c <= x < c + h[c];
                    assert(a + v[a] <= c || c + h[c] <= a);
                } else {
                    let c = choose|c: usize| p.contains_key(c) && c <= x < c + p[c];
                    assert(c + p[c] <= a || a + v[a] <= c);
                }
            }
        }
    }
    assert forall|x: int| !covers(e, x) by {}
    assert forall|x: int, y: int| 0 <= x <= y && #[trigger] cover4(r, h1, e, v, y) implies #[trigger] cover4(r, h1, e, v, x) by {
        assert(cover4(r, h, p, v, y));
        assert(cover4(r, h, p, v, x));
    }
}

// remove_region / the first half of move_region: a live extent becomes a pending hole, nothing else moves
pub proof fn lemma_region_to_pending(r: Map<usize, usize>, h: Map<usize, usize>, p: Map<usize, usize>, v: Map<usize, usize>, s: usize)
    requires tiles4(r, h, p, v), r.contains_key(s)
    ensures tiles4(r.remove(s), h, p.insert(s, r[s]), v)
{
    let r1 = r.remove(s);
    let p1 = p.insert(s, r[s]);
    assert(!p.contains_key(s)) by { if p.contains_key(s) { assert(s + r[s] <= s || s + p[s] <= s); } }
    assert(pairwise_disjoint(p1)) by {
        assert forall|a: usize, b: usize| p1.contains_key(a) && p1.contains_key(b) && a < b implies a + p1[a] <= b by {
            if a == s { assert(r.contains_key(s) && p.contains_key(b)); }
            else if b == s { assert(r.contains_key(s) && p.contains_key(a)); }
        }
    }
    assert(disjoint_maps(r1, p1)) by {
        assert forall|a: usize, b: usize| r1.contains_key(a) && p1.contains_key(b) implies (a + r1[a] <= b || b + p1[b] <= a) by {
            if b == s { assert(r.contains_key(a) && r.contains_key(s) && a != s); }
        }
    }
    assert forall|x: int| cover4(r1, h, p1, v, x) <==> cover4(r, h, p, v, x) by {
        if covers(r1, x) { let a = choose|a: usize| r1.contains_key(a) && a <= x < a + r1[a]; assert(r.contains_key(a) && a <= x < a + r[a]); }
        if covers(p1, x) {
            let a = choose|a: usize| p1.contains_key(a) && a <= x < a + p1[a];
            if a == s { assert(r.contains_key(s) && s <= x < s + r[s]); } else { assert(p.contains_key(a) && a <= x < a + p[a]); }
        }
        if covers(r, x) {
            let a = choose|a: usize| r.contains_key(a) && a <= x < a + r[a];
            if a == s { assert(p1.contains_key(s) && s <= x < s + p1[s]); } else { assert(r1.contains_key(a) && a <= x < a + r1[a]); }
        }
        if covers(p, x) { let a = choose|a: usize| p.contains_key(a) && a <= x < a + p[a]; assert(p1.contains_key(a) && a <= x < a + p1[a]); }
    }
    assert forall|x: int, y: int| 0 <= x <= y && #[trigger] cover4(r1, h, p1, v, y) implies #[trigger] cover4(r1, h, p1, v, x) by {
        assert(cover4(r, h, p, v, y)); assert(cover4(r, h, p, v, x));
    }
}

// ---- Layout::from (reopen): the holes are exactly the gaps between the regions, in ascending start order ----

pub open spec fn in_reg(me: Map<usize, usize>, keys: Seq<usize>, j: int, x: int) -> bool { keys[j] <= x < keys[j] + me[keys[j]] }

// state after processing keys[0..k): holes lie strictly below the last processed start, are merged, disjoint from every region,
// prev_end is the end of the last processed region, and everything below prev_end is covered by a hole or a processed region
pub open spec fn from_inv(me: Map<usize, usize>, keys: Seq<usize>, k: int, holes: Map<usize, usize>, prev_end: int) -> bool {
    &&& 0 <= k <= keys.len()
    &&& pairwise_disjoint(me)
    &&& (forall|i: int, j: int| 0 <= i < j < keys.len() ==> keys[i] < keys[j])
    &&& (forall|i: int| 0 <= i < keys.len() ==> me.contains_key(#[trigger] keys[i]))
    &&& (forall|s: usize| me.contains_key(s) ==> keys.contains(s))
    &&& prev_end == (if k == 0 { 0 } else { keys[k - 1] + me[keys[k - 1]] })
    &&& (k == 0 ==> holes == Map::<usize, usize>::empty())
    &&& (k > 0 ==> forall|h: usize| #[trigger] holes.contains_key(h) ==> h + holes[h] <= keys[k - 1])
    &&& disjoint_maps(me, holes)
    &&& (forall|x: int| 0 <= x < prev_end <==> (covers(holes, x) || exists|j: int| 0 <= j < k && #[trigger] in_reg(me, keys, j, x)))
}

// the next start is not below prev_end (regions are disjoint and visited in ascending order)
pub proof fn lemma_from_order(me: Map<usize, usize>, keys: Seq<usize>, k: int, holes: Map<usize, usize>, prev_end: int)
    requires from_inv(me, keys, k, holes, prev_end), k < keys.len()
    ensures prev_end <= keys[k], !holes.contains_key(prev_end as usize) || prev_end > usize::MAX, 0 <= prev_end <= usize::MAX
{
    if k > 0 {
        assert(me.contains_key(keys[k - 1]) && me.contains_key(keys[k]) && keys[k - 1] < keys[k]);
        if holes.contains_key(prev_end as usize) { assert(prev_end + holes[prev_end as usize] <= keys[k - 1]); }
    }
}

pub proof fn lemma_from_step(me: Map<usize, usize>, keys: Seq<usize>, k: int, h0: Map<usize, usize>, pe0: int, h1: Map<usize, usize>, pe1: int)
    requires
        from_inv(me, keys, k, h0, pe0), k < keys.len(), separated(h0),
        pe1 == keys[k] + me[keys[k]],
        h1 == (if pe0 != keys[k] { h0.insert(pe0 as usize, (keys[k] - pe0) as usize) } else { h0 }),
    ensures from_inv(me, keys, k + 1, h1, pe1), separated(h1)
{
    lemma_from_order(me, keys, k, h0, pe0);
    let s = keys[k];
    assert(me.contains_key(s));
    if pe0 != s {
        let hs = pe0 as usize; let hz = (s - pe0) as usize;
        assert(separated(h1)) by {
            assert forall|a: usize| #[trigger] h1.contains_key(a) implies h1[a] > 0 && a + h1[a] <= usize::MAX by { if a != hs { assert(h0.contains_key(a)); } }
            assert forall|a: usize, b: usize| h1.contains_key(a) && h1.contains_key(b) && a < b implies a + h1[a] < b by {
                if b == hs { assert(h0.contains_key(a)); assert(a + h0[a] <= keys[k - 1]); assert(me[keys[k - 1]] > 0); }
                else if a == hs { assert(h0.contains_key(b)); assert(b + h0[b] <= keys[k - 1]); }
                else { assert(h0.contains_key(a) && h0.contains_key(b)); }
            }
        }
        assert(disjoint_maps(me, h1)) by {
            assert forall|a: usize, b: usize| me.contains_key(a) && h1.contains_key(b) implies (a + me[a] <= b || b + h1[b] <= a) by {
                if b == hs {
                    // region a is either processed (ends <= pe0) or not yet (starts >= s)
                    assert(keys.contains(a));
                    let j = choose|j: int| 0 <= j < keys.len() && keys[j] == a;
                    if j < k { if j < k - 1 { assert(keys[j] < keys[k - 1]); assert(me.contains_key(keys[k - 1])); } }
                    else { if j > k { assert(keys[k] < keys[j]); } }
                } else { assert(h0.contains_key(b)); }
            }
        }
    }
    assert forall|h: usize| #[trigger] h1.contains_key(h) implies h + h1[h] <= keys[k] by {
        if h0.contains_key(h) && k > 0 { assert(h + h0[h] <= keys[k - 1]); assert(keys[k - 1] < keys[k]); }
    }
    assert forall|x: int| 0 <= x < pe1 <==> (covers(h1, x) || exists|j: int| 0 <= j < k + 1 && #[trigger] in_reg(me, keys, j, x)) by {
        if covers(h1, x) {
            let a = choose|a: usize| h1.contains_key(a) && a <= x < a + h1[a];
            if h0.contains_key(a) && h1[a] == h0[a] { assert(covers(h0, x)); }
        }
        if exists|j: int| 0 <= j < k + 1 && #[trigger] in_reg(me, keys, j, x) {
            let j = choose|j: int| 0 <= j < k + 1 && #[trigger] in_reg(me, keys, j, x);
            if j < k { assert(exists|j2: int| 0 <= j2 < k && #[trigger] in_reg(me, keys, j2, x)); }
        }
        if 0 <= x < pe1 {
            if x < pe0 {
                if covers(h0, x) { let a = choose|a: usize| h0.contains_key(a) && a <= x < a + h0[a]; assert(h1.contains_key(a) && h1[a] == h0[a] && a <= x < a + h1[a]); }
                else { let j = choose|j: int| 0 <= j < k && #[trigger] in_reg(me, keys, j, x); assert(0 <= j < k + 1 && in_reg(me, keys, j, x)); }
            } else if x < s {
                assert(h1.contains_key(pe0 as usize) && pe0 <= x < pe0 + h1[pe0 as usize]);
            } else {
                assert(0 <= k < k + 1 && in_reg(me, keys, k, x));
            }
        }
    }
}

pub proof fn lemma_from_done(me: Map<usize, usize>, keys: Seq<usize>, holes: Map<usize, usize>, prev_end: int)
    requires from_inv(me, keys, keys.len() as int, holes, prev_end), separated(holes)
    ensures tiles4(me, holes, Map::<usize, usize>::empty(), Map::<usize, usize>::empty())
{
    let e = Map::<usize, usize>::empty();
    assert forall|x: int| !covers(e, x) by {}
    assert forall|x: int| covers(me, x) <==> (exists|j: int| 0 <= j < keys.len() && #[trigger] in_reg(me, keys, j, x)) by {
        if covers(me, x) {
            let a = choose|a: usize| me.contains_key(a) && a <= x < a + me[a];
            assert(keys.contains(a));
            let j = choose|j: int| 0 <= j < keys.len() && keys[j] == a;
            assert(in_reg(me, keys, j, x));
        }
        if exists|j: int| 0 <= j < keys.len() && #[trigger] in_reg(me, keys, j, x) {
            let j = choose|j: int| 0 <= j < keys.len() && #[trigger] in_reg(me, keys, j, x);
            assert(me.contains_key(keys[j]) && keys[j] <= x < keys[j] + me[keys[j]]);
        }
    }
    assert forall|x: int, y: int| 0 <= x <= y && #[trigger] cover4(me, holes, e, e, y) implies #[trigger] cover4(me, holes, e, e, x) by {
        assert(0 <= y < prev_end);
        assert(0 <= x < prev_end);
    }
}
