// U1 spec vocabulary (DESIGN.md section 4, rawdb)
pub open spec fn index_ok(h: Map<usize, usize>, idx: Map<usize, Vec<usize>>) -> bool {
    &&& forall|s: usize| #[trigger] h.contains_key(s) ==> idx.contains_key(h[s]) && idx[h[s]]@.contains(s)
    &&& forall|sz: usize, i: int| idx.contains_key(sz) && 0 <= i < idx[sz]@.len() ==> h.contains_key(#[trigger] idx[sz]@[i]) && h[idx[sz]@[i]] == sz
    &&& forall|sz: usize| #[trigger] idx.contains_key(sz) ==> idx[sz]@.len() > 0 && idx[sz]@.no_duplicates()
}

// holes are non-empty, do not overflow, are pairwise disjoint AND non-adjacent (merged)
pub open spec fn separated(h: Map<usize, usize>) -> bool {
    &&& forall|a: usize| #[trigger] h.contains_key(a) ==> h[a] > 0 && a + h[a] <= usize::MAX
    &&& forall|a: usize, b: usize| h.contains_key(a) && h.contains_key(b) && a < b ==> a + h[a] < b
}

pub open spec fn disjoint_maps(p: Map<usize, usize>, h: Map<usize, usize>) -> bool {
    forall|a: usize, b: usize| p.contains_key(a) && h.contains_key(b) ==> (a + p[a] <= b || b + h[b] <= a)
}

pub open spec fn pairwise_disjoint(p: Map<usize, usize>) -> bool {
    &&& forall|a: usize| #[trigger] p.contains_key(a) ==> p[a] > 0 && a + p[a] <= usize::MAX
    &&& forall|a: usize, b: usize| p.contains_key(a) && p.contains_key(b) && a < b ==> a + p[a] <= b
}

pub open spec fn covers(m: Map<usize, usize>, x: int) -> bool {
    exists|a: usize| m.contains_key(a) && a <= x < a + m[a]
}

// ---- lemmas about the inverse index ----
pub proof fn lemma_index_insert(h0: Map<usize, usize>, i0: Map<usize, Vec<usize>>, h1: Map<usize, usize>, i1: Map<usize, Vec<usize>>, start: usize, size: usize)
    requires
        index_ok(h0, i0), !h0.contains_key(start),
        h1 == h0.insert(start, size),
        i1.dom() == i0.dom().insert(size),
        forall|j: usize| j != size && i0.contains_key(j) ==> i1[j] == i0[j],
        i1[size]@ == (if i0.contains_key(size) { i0[size]@ } else { Seq::<usize>::empty() }).push(start),
    ensures index_ok(h1, i1)
{
    assert forall|s: usize| #[trigger] h1.contains_key(s) implies i1.contains_key(h1[s]) && i1[h1[s]]@.contains(s) by {
        if s == start { assert(i1[size]@[i1[size]@.len() - 1] == start); }
        else {
            assert(h0.contains_key(s));
            if h0[s] == size {
                let j = choose|j: int| 0 <= j < i0[size]@.len() && i0[size]@[j] == s;
                assert(i1[size]@[j] == s);
            }
        }
    }
    assert forall|sz: usize, i: int| i1.contains_key(sz) && 0 <= i < i1[sz]@.len() implies h1.contains_key(#[trigger] i1[sz]@[i]) && h1[i1[sz]@[i]] == sz by {
        if sz == size {
            if i < i1[sz]@.len() - 1 { assert(i0.contains_key(sz)); assert(i1[sz]@[i] == i0[sz]@[i]); assert(h0.contains_key(i0[sz]@[i])); }
        } else { assert(i1[sz] == i0[sz]); assert(h0.contains_key(i0[sz]@[i])); }
    }
    assert forall|sz: usize| #[trigger] i1.contains_key(sz) implies i1[sz]@.len() > 0 && i1[sz]@.no_duplicates() by {
        if sz == size {
            if i0.contains_key(size) {
                assert forall|i: int, j: int| 0 <= i < i1[sz]@.len() && 0 <= j < i1[sz]@.len() && i != j implies i1[sz]@[i] != i1[sz]@[j] by {
                    if i == i1[sz]@.len() - 1 { assert(h0.contains_key(i0[sz]@[j])); }
                    else if j == i1[sz]@.len() - 1 { assert(h0.contains_key(i0[sz]@[i])); }
                }
            }
        } else { assert(i1[sz] == i0[sz]); }
    }
}

// what `retain(|s| *s != start)` leaves, from the one-directional closure facts
pub open spec fn retained_ne(before: Seq<usize>, after: Seq<usize>, start: usize) -> bool {
    &&& forall|x: usize| before.contains(x) && x != start ==> after.contains(x)
    &&& forall|i: int| 0 <= i < after.len() ==> before.contains(#[trigger] after[i]) && after[i] != start
    &&& (before.no_duplicates() ==> after.no_duplicates())
}

pub proof fn lemma_retain_ne(before: Seq<usize>, after: Seq<usize>, start: usize)
    requires
        forall|i: int| 0 <= i < after.len() ==> before.contains(#[trigger] after[i]) && after[i] != start,
        forall|x: usize| #[trigger] before.contains(x) && !after.contains(x) ==> x == start,
        before.no_duplicates() ==> after.no_duplicates(),
    ensures retained_ne(before, after, start)
{
}

pub proof fn lemma_index_remove(h0: Map<usize, usize>, i0: Map<usize, Vec<usize>>, h1: Map<usize, usize>, i1: Map<usize, Vec<usize>>, start: usize, size: usize)
    requires
        index_ok(h0, i0), h0.contains_key(start), h0[start] == size,
        h1 == h0.remove(start),
        forall|j: usize| j != size ==> (i1.contains_key(j) <==> i0.contains_key(j)),
        forall|j: usize| j != size && i0.contains_key(j) ==> i1[j] == i0[j],
        i1.contains_key(size) ==> retained_ne(i0[size]@, i1[size]@, start) && i1[size]@.len() > 0,
        !i1.contains_key(size) ==> (forall|x: usize| i0[size]@.contains(x) ==> x == start),
    ensures index_ok(h1, i1)
{
    assert(i0.contains_key(size));
    assert forall|s: usize| #[trigger] h1.contains_key(s) implies i1.contains_key(h1[s]) && i1[h1[s]]@.contains(s) by {
        assert(h0.contains_key(s) && s != start);
        assert(i0.contains_key(h0[s]) && i0[h0[s]]@.contains(s));
        if h0[s] == size {
            assert(i1.contains_key(size));
        } else {
            assert(i1.contains_key(h0[s]));
            assert(i1[h0[s]] == i0[h0[s]]);
        }
    }
    assert forall|sz: usize, i: int| i1.contains_key(sz) && 0 <= i < i1[sz]@.len() implies h1.contains_key(#[trigger] i1[sz]@[i]) && h1[i1[sz]@[i]] == sz by {
        if sz == size {
            assert(i0[size]@.contains(i1[sz]@[i]));
            let j = choose|j: int| 0 <= j < i0[size]@.len() && i0[size]@[j] == i1[sz]@[i];
            assert(h0.contains_key(i0[size]@[j]));
        } else { assert(h0.contains_key(i0[sz]@[i])); }
    }
    assert forall|sz: usize| #[trigger] i1.contains_key(sz) implies i1[sz]@.len() > 0 && i1[sz]@.no_duplicates() by {
        if sz != size { assert(i1[sz] == i0[sz]); }
    }
}

