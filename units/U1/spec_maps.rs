// U1 spec vocabulary (DESIGN.md section 4, rawdb)
pub open spec fn index_ok(h: Map<usize, usize>, idx: Map<usize, Vec<usize>>) -> bool {
    &&& forall|s: usize| #[trigger] h.contains_key(s) ==> idx.contains_key(h[s]) && idx[h[s]]@.contains(s)
    &&& forall|sz: usize, i: int| idx.contains_key(sz) && 0 <= i < idx[sz]@.len() ==> h.contains_key(#[trigger] idx[sz]@[i]) && h[idx[sz]@[i]] == sz
    &&& forall|sz: usize| #[trigger] idx.contains_key(sz) ==> idx[sz]@.len() > 0 && idx[sz]@.no_duplicates()
}

// holes are non-empty, do not overflow, are pairwise disjoint AND non-adjacent (merged)
pub open spec fn separated(h: Map<usize, usize>) -> bool {
    &&& forall|a: usize| #[trigger] h.contains_key(a) ==> h[a] > 0 && a + h[a] <= usize::MAX
    &&& forall|a: usize, b: usize| h.contains_key(a) && h.contains_key(b) && a < b ==> a + h[a] < b
}

pub open spec fn disjoint_maps(p: Map<usize, usize>, h: Map<usize, usize>) -> bool {
    forall|a: usize, b: usize| p.contains_key(a) && h.contains_key(b) ==> (a + p[a] <= b || b + h[b] <= a)
}

pub open spec fn pairwise_disjoint(p: Map<usize, usize>) -> bool {
    &&& forall|a: usize| #[trigger] p.contains_key(a) ==> p[a] > 0 && a + p[a] <= usize::MAX
    &&& forall|a: usize, b: usize| p.contains_key(a) && p.contains_key(b) && a < b ==> a + p[a] <= b
}

pub open spec fn covers(m: Map<usize, usize>, x: int) -> bool {
    exists|a: usize| m.contains_key(a) && a <= x < a + m[a]
}


pub open spec fn cover4(r: Map<usize, usize>, h: Map<usize, usize>, p: Map<usize, usize>, v: Map<usize, usize>, x: int) -> bool {
    covers(r, x) || covers(h, x) || covers(p, x) || covers(v, x)
}

// the four extent maps (live regions, holes, pending holes, reservations) are internally and mutually disjoint,
// holes are merged, and nothing below the highest covered byte is uncovered (no lost space).
pub open spec fn tiles4(r: Map<usize, usize>, h: Map<usize, usize>, p: Map<usize, usize>, v: Map<usize, usize>) -> bool {
    &&& pairwise_disjoint(r) && separated(h) && pairwise_disjoint(p) && pairwise_disjoint(v)
    &&& disjoint_maps(r, h) && disjoint_maps(r, p) && disjoint_maps(r, v)
    &&& disjoint_maps(p, h) && disjoint_maps(v, h) && disjoint_maps(p, v)
    &&& forall|x: int, y: int| 0 <= x <= y && #[trigger] cover4(r, h, p, v, y) ==> #[trigger] cover4(r, h, p, v, x)
}

pub open spec fn aligned_map(m: Map<usize, usize>) -> bool {
    forall|a: usize| #[trigger] m.contains_key(a) ==> a % 4096 == 0 && m[a] % 4096 == 0
}

// One iteration of promote_pending_holes, as a statement about maps.
//   h0  holes before the step      pend  pending set before the step (its least key is `start`)
//   fs  the `final_start` the code computed: the start of the hole ending exactly at `start`, else `start`
// the code then also swallows the hole beginning at `start + size0` (if any)
pub open spec fn promote_step_holes(h0: Map<usize, usize>, start: usize, size0: usize, fs: usize) -> Map<usize, usize> {
    let mid = if fs != start { h0.remove(fs) } else { h0 };
    let e = (start + size0) as usize;
    let sz: usize = ((e - fs) + (if mid.contains_key(e) { mid[e] as int } else { 0 })) as usize;
    mid.remove(e).insert(fs, sz)
}

pub proof fn lemma_promote_step(h0: Map<usize, usize>, pend: Map<usize, usize>, start: usize, size0: usize, fs: usize)
    requires
        separated(h0), pairwise_disjoint(pend), disjoint_maps(pend, h0),
        pend.contains_key(start), pend[start] == size0,
        forall|j: usize| pend.contains_key(j) ==> start <= j,
        fs != start ==> h0.contains_key(fs) && fs + h0[fs] == start,
        fs == start ==> forall|b: usize| h0.contains_key(b) && b < start ==> b + h0[b] != start,
    ensures
        ({
            let h1 = promote_step_holes(h0, start, size0, fs);
            let p1 = pend.remove(start);
            &&& separated(h1)
            &&& pairwise_disjoint(p1)
            &&& disjoint_maps(p1, h1)
            &&& forall|x: int| (covers(h1, x) || covers(p1, x)) <==> (covers(h0, x) || covers(pend, x))
        }),
{
    let merged_before = fs != start;
    let mid = if merged_before { h0.remove(fs) } else { h0 };
    let e = (start + size0) as usize;
    let after = mid.contains_key(e);
    let sz: usize = ((e - fs) + (if after { mid[e] as int } else { 0 })) as usize;
    let h1 = mid.remove(e).insert(fs, sz);
    let p1 = pend.remove(start);
    assert(h1 == promote_step_holes(h0, start, size0, fs));
    assert(size0 > 0 && start + size0 <= usize::MAX);
    if merged_before { assert(h0[fs] > 0); }
    if after { assert(h0.contains_key(e)); assert(e + h0[e] <= usize::MAX); }
    // every other hole of h0 is strictly left of fs or strictly right of fs+sz
    assert forall|b: usize| h0.contains_key(b) && b != fs && b != e implies (b + h0[b] < fs || fs + sz < b) by {
        if b < start {
            assert(b + h0[b] <= start) by { assert(pend.contains_key(start) && h0.contains_key(b)); }
            if merged_before {
                // two holes of a separated map cannot both reach `start`
                if b < fs { assert(b + h0[b] < fs); } else { assert(fs < b); assert(fs + h0[fs] < b); }
            }
        } else {
            assert(pend.contains_key(start) && h0.contains_key(b));
            assert(b >= e);
            if after { assert(h0.contains_key(e) && e < b); assert(e + h0[e] < b); }
        }
    }
    assert(separated(h1)) by {
        assert forall|a: usize| #[trigger] h1.contains_key(a) implies h1[a] > 0 && a + h1[a] <= usize::MAX by {
            if a != fs { assert(h0.contains_key(a)); }
        }
        assert forall|a: usize, b: usize| h1.contains_key(a) && h1.contains_key(b) && a < b implies a + h1[a] < b by {
            if a == fs { assert(h0.contains_key(b) && b != fs && b != e); }
            else if b == fs { assert(h0.contains_key(a) && a != fs && a != e); }
            else { assert(h0.contains_key(a) && h0.contains_key(b)); }
        }
    }
    assert(disjoint_maps(p1, h1)) by {
        assert forall|q: usize, b: usize| p1.contains_key(q) && h1.contains_key(b) implies (q + p1[q] <= b || b + h1[b] <= q) by {
            assert(pend.contains_key(q) && q != start && start < q);
            assert(start + size0 <= q);
            if b == fs {
                if after { assert(h0.contains_key(e)); assert(q + pend[q] <= e || e + h0[e] <= q); }
            } else { assert(h0.contains_key(b)); }
        }
    }
    assert forall|x: int| (covers(h1, x) || covers(p1, x)) <==> (covers(h0, x) || covers(pend, x)) by {
        if covers(h1, x) {
            let a = choose|a: usize| h1.contains_key(a) && a <= x < a + h1[a];
            if a == fs {
                if x < start { assert(merged_before); assert(h0.contains_key(fs) && fs <= x < fs + h0[fs]); }
                else if x < e { assert(pend.contains_key(start) && start <= x < start + pend[start]); }
                else { assert(after); assert(h0.contains_key(e) && e <= x < e + h0[e]); }
            } else { assert(h0.contains_key(a) && a <= x < a + h0[a]); }
        }
        if covers(p1, x) {
            let a = choose|a: usize| p1.contains_key(a) && a <= x < a + p1[a];
            assert(pend.contains_key(a) && a <= x < a + pend[a]);
        }
        if covers(h0, x) {
            let a = choose|a: usize| h0.contains_key(a) && a <= x < a + h0[a];
            if a != fs && a != e { assert(h1.contains_key(a) && h1[a] == h0[a] && a <= x < a + h1[a]); }
            else {
                if a == e && a != fs { assert(after); }
                assert(h1.contains_key(fs) && fs <= x < fs + h1[fs]);
            }
        }
        if covers(pend, x) {
            let a = choose|a: usize| pend.contains_key(a) && a <= x < a + pend[a];
            if a == start { assert(h1.contains_key(fs) && fs <= x < fs + h1[fs]); }
            else { assert(p1.contains_key(a) && a <= x < a + p1[a]); }
        }
    }
}

// in a pairwise-disjoint extent map the extent with the greatest start also has the greatest end
pub proof fn lemma_last_is_max(m: Map<usize, usize>)
    requires pairwise_disjoint(m)
    ensures forall|a: usize, b: usize| m.contains_key(a) && m.contains_key(b) && b <= a ==> b + m[b] <= a + m[a]
{
}

// ---- tiling lemmas: what the per-method view changes mean for the partition of the file ----

// two extents that overlap share their larger start
pub proof fn lemma_overlap_point(m1: Map<usize, usize>, a: usize, m2: Map<usize, usize>, b: usize)
    requires m1.contains_key(a), m2.contains_key(b), m1[a] > 0, m2[b] > 0, !(a + m1[a] <= b || b + m2[b] <= a)
    ensures ({ let x: int = if a <= b { b as int } else { a as int }; covers(m1, x) && covers(m2, x) })
{
    let x: int = if a <= b { b as int } else { a as int };
    assert(m1.contains_key(a) && a <= x < a + m1[a]);
    assert(m2.contains_key(b) && b <= x < b + m2[b]);
}

// an extent map disjoint from h and from p is disjoint from any h1 that covers at most what h and p covered
pub proof fn lemma_disjoint_by_cover(r: Map<usize, usize>, h: Map<usize, usize>, p: Map<usize, usize>, h1: Map<usize, usize>)
    requires
        pairwise_disjoint(r), disjoint_maps(r, h), disjoint_maps(r, p),
        forall|a: usize| #[trigger] h1.contains_key(a) ==> h1[a] > 0,
        forall|x: int| covers(h1, x) ==> (covers(h, x) || covers(p, x)),
    ensures disjoint_maps(r, h1)
{
    assert forall|a: usize, b: usize| r.contains_key(a) && h1.contains_key(b) implies (a + r[a] <= b || b + h1[b] <= a) by {
        if !(a + r[a] <= b || b + h1[b] <= a) {
            lemma_overlap_point(r, a, h1, b);
            let x: int = if a <= b { b as int } else { a as int };
            assert(covers(h, x) || covers(p, x));
            if covers(h, x) {
                let c = choose|c: usize| h.contains_key(c) && c <= x < c + h[c];
                assert(a + r[a] <= c || c + h[c] <= a);
            } else {
                let c = choose|c: usize| p.contains_key(c) && c <= x < c + p[c];
                assert(a + r[a] <= c || c + p[c] <= a);
            }
        }
    }
}

// promote_pending_holes keeps the partition: same bytes covered, pending emptied, holes merged
pub proof fn lemma_promote_tiles(r: Map<usize, usize>, h: Map<usize, usize>, p: Map<usize, usize>, v: Map<usize, usize>, h1: Map<usize, usize>)
    requires
        tiles4(r, h, p, v), separated(h1),
        forall|x: int| covers(h1, x) <==> (covers(h, x) || covers(p, x)),
    ensures tiles4(r, h1, Map::<usize, usize>::empty(), v)
{
    let e = Map::<usize, usize>::empty();
    lemma_disjoint_by_cover(r, h, p, h1);
    // v against h1: same argument with the roles swapped (disjoint_maps is stated (first, second))
    assert(disjoint_maps(v, h1)) by {
        assert forall|a: usize, b: usize| v.contains_key(a) && h1.contains_key(b) implies (a + v[a] <= b || b + h1[b] <= a) by {
            if !(a + v[a] <= b || b + h1[b] <= a) {
                lemma_overlap_point(v, a, h1, b);
                let x: int = if a <= b { b as int } else { a as int };
                if covers(h, x) {
                    let c = choose|c: usize| h.contains_key(c) && c <= x < c + h[c];
                    assert(a + v[a] <= c || c + h[c] <= a);
                } else {
                    let c = choose|c: usize| p.contains_key(c) && c <= x < c + p[c];
                    assert(c + p[c] <= a || a + v[a] <= c);
                }
            }
        }
    }
    assert forall|x: int| !covers(e, x) by {}
    assert forall|x: int, y: int| 0 <= x <= y && #[trigger] cover4(r, h1, e, v, y) implies #[trigger] cover4(r, h1, e, v, x) by {
        assert(cover4(r, h, p, v, y));
        assert(cover4(r, h, p, v, x));
    }
}

// remove_region / the first half of move_region: a live extent becomes a pending hole, nothing else moves
pub proof fn lemma_region_to_pending(r: Map<usize, usize>, h: Map<usize, usize>, p: Map<usize, usize>, v: Map<usize, usize>, s: usize)
    requires tiles4(r, h, p, v), r.contains_key(s)
    ensures tiles4(r.remove(s), h, p.insert(s, r[s]), v)
{
    let r1 = r.remove(s);
    let p1 = p.insert(s, r[s]);
    assert(!p.contains_key(s)) by { if p.contains_key(s) { assert(s + r[s] <= s || s + p[s] <= s); } }
    assert(pairwise_disjoint(p1)) by {
        assert forall|a: usize, b: usize| p1.contains_key(a) && p1.contains_key(b) && a < b implies a + p1[a] <= b by {
            if a == s { assert(r.contains_key(s) && p.contains_key(b)); }
            else if b == s { assert(r.contains_key(s) && p.contains_key(a)); }
        }
    }
    assert(disjoint_maps(r1, p1)) by {
        assert forall|a: usize, b: usize| r1.contains_key(a) && p1.contains_key(b) implies (a + r1[a] <= b || b + p1[b] <= a) by {
            if b == s { assert(r.contains_key(a) && r.contains_key(s) && a != s); }
        }
    }
    assert forall|x: int| cover4(r1, h, p1, v, x) <==> cover4(r, h, p, v, x) by {
        if covers(r1, x) { let a = choose|a: usize| r1.contains_key(a) && a <= x < a + r1[a]; assert(r.contains_key(a) && a <= x < a + r[a]); }
        if covers(p1, x) {
            let a = choose|a: usize| p1.contains_key(a) && a <= x < a + p1[a];
            if a == s { assert(r.contains_key(s) && s <= x < s + r[s]); } else { assert(p.contains_key(a) && a <= x < a + p[a]); }
        }
        if covers(r, x) {
            let a = choose|a: usize| r.contains_key(a) && a <= x < a + r[a];
            if a == s { assert(p1.contains_key(s) && s <= x < s + p1[s]); } else { assert(r1.contains_key(a) && a <= x < a + r1[a]); }
        }
        if covers(p, x) { let a = choose|a: usize| p.contains_key(a) && a <= x < a + p[a]; assert(p1.contains_key(a) && a <= x < a + p1[a]); }
    }
    assert forall|x: int, y: int| 0 <= x <= y && #[trigger] cover4(r1, h, p1, v, y) implies #[trigger] cover4(r1, h, p1, v, x) by {
        assert(cover4(r, h, p, v, y)); assert(cover4(r, h, p, v, x));
    }
}

