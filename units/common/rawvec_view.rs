// The abstract view of a raw vector (shared by U12 and U21): what a reader of the vector gets at each position.
impl<I, T, S> ReadWriteRawVec<I, T, S> {
    pub open spec fn vlen(&self) -> int { self.base.read_only.stored_len.v + self.base.pushed.current@.len() }
    // the value a reader of the vector gets at position i (None: deleted)
    pub open spec fn slot(&self, disk: Seq<T>, i: int) -> Option<T> {
        if self.holes.current@.contains(i as usize) { None }
        else if i < self.base.read_only.stored_len.v {
            if self.updated.current@.contains_key(i as usize) { Some(self.updated.current@[i as usize]) } else { Some(disk[i]) }
        } else { Some(self.base.pushed.current@[i - self.base.read_only.stored_len.v]) }
    }
    pub open spec fn view(&self, disk: Seq<T>) -> Seq<Option<T>> { Seq::new(self.vlen() as nat, |i: int| self.slot(disk, i)) }
    // C20: every stored position that a read can reach through to the file lies inside the stored data (after an un-truncating
    // rollback the positions beyond the file are covered by the overlay until the next write)
    pub open spec fn readable(&self, disk: Seq<T>) -> bool {
        forall|i: usize| i < self.base.read_only.stored_len.v && i >= disk.len() ==> #[trigger] self.updated.current@.contains_key(i) || #[trigger] self.holes.current@.contains(i)
    }
    // deleted slots and overlay entries only exist where the vector has elements
    pub open spec fn inv(&self) -> bool {
        &&& self.vlen() <= 0x100_0000_0000
        &&& forall|h: usize| self.holes.current@.contains(h) ==> h < self.vlen()
        &&& forall|k: usize| self.updated.current@.contains_key(k) ==> k < self.base.read_only.stored_len.v
    }
    // the last committed state: which stored slots its overlay covers
    pub open spec fn binv(&self) -> bool {
        &&& forall|k: usize| self.updated.previous@.contains_key(k) ==> k < self.base.previous_stored_len
        &&& self.base.read_only.stored_len.v <= self.base.previous_stored_len          // edits since the commit only shorten the stored part
    }
    // C20, strong form kept by commits and rollbacks: a stored position beyond the file is served by the overlay
    pub open spec fn covered(&self, disk: Seq<T>) -> bool {
        forall|i: usize| disk.len() <= i < self.base.read_only.stored_len.v ==> #[trigger] self.updated.current@.contains_key(i)
    }
    pub open spec fn prev_covered(&self, disk: Seq<T>) -> bool {
        forall|i: usize| disk.len() <= i < self.base.previous_stored_len ==> #[trigger] self.updated.previous@.contains_key(i)
    }
}
