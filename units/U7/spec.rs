// U7 spec vocabulary: the page table of a compressed vector (C07)
pub open spec fn pcount(p: Page) -> int { (p.values & !0x8000_0000u32) as int }
pub open spec fn praw(p: Page) -> bool { p.values & 0x8000_0000u32 != 0 }
pub open spec fn pend(p: Page) -> int { p.start + p.bytes }

// gap-free run starting right after the header; every page but the last is full and compressed; only the last may be raw
// (then it is not full and holds its values verbatim); the data region ends where the last page ends
pub open spec fn pages_wf(s: Seq<Page>, per_page: int, size: int, region_len: int) -> bool {
    &&& forall|i: int| 0 <= i < s.len() ==> (#[trigger] s[i]).start == (if i == 0 { HEADER_OFFSET as int } else { pend(s[i - 1]) })
    &&& forall|i: int| 0 <= i < s.len() - 1 ==> pcount(#[trigger] s[i]) == per_page && !praw(s[i])
    &&& s.len() > 0 ==> 0 < pcount(s.last()) <= per_page && (praw(s.last()) ==> pcount(s.last()) < per_page && s.last().bytes == pcount(s.last()) * size)
    &&& region_len == (if s.len() == 0 { HEADER_OFFSET as int } else { pend(s.last()) })
    &&& region_len <= 0x1000_0000_0000
}
pub open spec fn pages_len(s: Seq<Page>, per_page: int) -> int { if s.len() == 0 { 0 } else { (s.len() - 1) * per_page + pcount(s.last()) } }

// the in-memory table and the on-disk one agree below the first changed index
pub open spec fn synced(vec: Seq<Page>, change_at: Option<usize>, disk: Seq<Page>) -> bool {
    match change_at {
        None => disk == vec,
        Some(c) => c <= vec.len() && c <= disk.len() && forall|i: int| 0 <= i < c ==> disk[i] == vec[i],
    }
}

pub proof fn lemma_flag_bits(v: u32)
    requires v < 0x8000_0000u32
    ensures (v | 0x8000_0000u32) & !0x8000_0000u32 == v, (v | 0x8000_0000u32) & 0x8000_0000u32 != 0,
            v & !0x8000_0000u32 == v, v & 0x8000_0000u32 == 0
{
    assert((v | 0x8000_0000u32) & !0x8000_0000u32 == v) by (bit_vector) requires v < 0x8000_0000u32;
    assert((v | 0x8000_0000u32) & 0x8000_0000u32 != 0) by (bit_vector);
    assert(v & !0x8000_0000u32 == v) by (bit_vector) requires v < 0x8000_0000u32;
    assert(v & 0x8000_0000u32 == 0) by (bit_vector) requires v < 0x8000_0000u32;
}
pub proof fn lemma_count_bound(v: u32)
    ensures (v & !0x8000_0000u32) < 0x8000_0000u32
{
    assert((v & !0x8000_0000u32) < 0x8000_0000u32) by (bit_vector);
}
// the real constant (`1 << 31`, extracted from page/mod.rs) is the mask the spec functions use
pub proof fn lemma_raw_flag() ensures RAW_FLAG == 0x8000_0000u32 { assert(1u32 << 31 == 0x8000_0000u32) by (bit_vector); }

// what the encoding loop of write() produced so far: (byte length, value count, raw?) per new page
pub open spec fn sum_bytes(ps: Seq<(usize, usize, bool)>) -> int decreases ps.len() { if ps.len() == 0 { 0 } else { sum_bytes(ps.drop_last()) + ps.last().0 } }
pub open spec fn sum_vals(ps: Seq<(usize, usize, bool)>) -> int decreases ps.len() { if ps.len() == 0 { 0 } else { sum_vals(ps.drop_last()) + ps.last().1 } }
pub open spec fn sizes_ok(ps: Seq<(usize, usize, bool)>, per_page: int, size: int) -> bool {
    forall|j: int| 0 <= j < ps.len() ==> {
        &&& 0 < (#[trigger] ps[j]).1 <= per_page && ps[j].0 < 0x1000_0000
        &&& (ps[j].2 ==> ps[j].1 < per_page && ps[j].0 == ps[j].1 * size && j == ps.len() - 1)
        &&& (!ps[j].2 ==> ps[j].1 == per_page)
    }
}
pub proof fn lemma_sum_push(ps: Seq<(usize, usize, bool)>, e: (usize, usize, bool))
    ensures sum_bytes(ps.push(e)) == sum_bytes(ps) + e.0, sum_vals(ps.push(e)) == sum_vals(ps) + e.1
{
    assert(ps.push(e).drop_last() =~= ps);
}
pub proof fn lemma_sum_take(ps: Seq<(usize, usize, bool)>, i: int)
    requires 0 <= i < ps.len()
    ensures sum_bytes(ps.take(i + 1)) == sum_bytes(ps.take(i)) + ps[i].0, sum_vals(ps.take(i + 1)) == sum_vals(ps.take(i)) + ps[i].1
{
    assert(ps.take(i + 1).drop_last() =~= ps.take(i));
}
// all entries but possibly the last hold exactly per_page values
pub proof fn lemma_sum_vals_full(ps: Seq<(usize, usize, bool)>, per_page: int, size: int)
    requires sizes_ok(ps, per_page, size), ps.len() > 0
    ensures sum_vals(ps) == (ps.len() - 1) * per_page + ps.last().1
    decreases ps.len()
{
    assert(sum_vals(ps) == sum_vals(ps.drop_last()) + ps.last().1);
    if ps.len() == 1 {
        assert(ps.drop_last().len() == 0);
        assert(sum_vals(ps.drop_last()) == 0);
    } else {
        let q = ps.drop_last();
        assert forall|j: int| 0 <= j < q.len() implies {
            &&& 0 < (#[trigger] q[j]).1 <= per_page && q[j].0 < 0x1000_0000
            &&& (q[j].2 ==> q[j].1 < per_page && q[j].0 == q[j].1 * size && j == q.len() - 1)
            &&& (!q[j].2 ==> q[j].1 == per_page)
        } by { assert(q[j] == ps[j]); assert(!ps[j].2); }
        lemma_sum_vals_full(q, per_page, size);
        assert(q.last() == ps[ps.len() - 2]);
        assert(!ps[ps.len() - 2].2);
        assert((ps.len() - 1) * per_page == (ps.len() - 2) * per_page + per_page) by (nonlinear_arith);
    }
}

// one more chunk encoded: the bookkeeping of the encoding loop
pub proof fn lemma_chunk_step(ps0: Seq<(usize, usize, bool)>, e: (usize, usize, bool), per_page: int, size: int, ci0: int, n: int, total: int)
    requires
        sizes_ok(ps0, per_page, size), forall|j: int| 0 <= j < ps0.len() ==> !(#[trigger] ps0[j]).2,
        0 < size <= 4096, per_page == 16384int / size, 0 <= ci0 < total, ci0 % per_page == 0,
        n == (if total - ci0 < per_page { total - ci0 } else { per_page }), e.1 == n,
        e.2 == (n != per_page), e.2 ==> e.0 == n * size, !e.2 ==> e.0 < 0x1000_0000,
    ensures
        sizes_ok(ps0.push(e), per_page, size),
        ci0 + n == total || (ci0 + n) % per_page == 0,
        forall|j: int| 0 <= j < ps0.push(e).len() && (#[trigger] ps0.push(e)[j]).2 ==> ci0 + n == total,
        sum_bytes(ps0.push(e)) == sum_bytes(ps0) + e.0, sum_vals(ps0.push(e)) == sum_vals(ps0) + e.1,
{
    lemma_sum_push(ps0, e);
    let ps = ps0.push(e);
    assert(per_page >= 4) by (nonlinear_arith) requires 0 < size <= 4096, per_page == 16384int / size;
    assert(n * size <= 16384) by (nonlinear_arith) requires 0 <= n <= per_page, 0 < size, per_page == 16384int / size;
    assert forall|j: int| 0 <= j < ps.len() implies {
        &&& 0 < (#[trigger] ps[j]).1 <= per_page && ps[j].0 < 0x1000_0000
        &&& (ps[j].2 ==> ps[j].1 < per_page && ps[j].0 == ps[j].1 * size && j == ps.len() - 1)
        &&& (!ps[j].2 ==> ps[j].1 == per_page)
    } by { if j < ps0.len() { assert(ps[j] == ps0[j]); } }
    if n == per_page { vstd::arithmetic::div_mod::lemma_mod_add_multiples_vanish(ci0, per_page); }
    assert forall|j: int| 0 <= j < ps.len() && (#[trigger] ps[j]).2 implies ci0 + n == total by { if j < ps0.len() { assert(ps[j] == ps0[j]); } }
}

// ---- write(): what is kept of the old table, and how the new pages are appended ----
pub open spec fn start_of(s: Seq<Page>, i: int) -> int { if i == 0 { HEADER_OFFSET as int } else { pend(s[i - 1]) } }

// page ends never decrease along the run, so every page lies below the end of the region
pub proof fn lemma_ends_monotone(s: Seq<Page>, per_page: int, size: int, region_len: int, i: int)
    requires pages_wf(s, per_page, size, region_len), 0 <= i <= s.len()
    ensures HEADER_OFFSET <= start_of(s, i) <= region_len
{
    lemma_ends_upper(s, per_page, size, region_len, i);
    lemma_ends_lower(s, per_page, size, region_len, i);
}
pub proof fn lemma_ends_upper(s: Seq<Page>, per_page: int, size: int, region_len: int, i: int)
    requires pages_wf(s, per_page, size, region_len), 0 <= i <= s.len()
    ensures start_of(s, i) <= region_len
    decreases s.len() - i
{
    if i < s.len() {
        lemma_ends_upper(s, per_page, size, region_len, i + 1);
        assert(s[i].start == start_of(s, i));
        assert(start_of(s, i + 1) == s[i].start + s[i].bytes);
    }
}
pub proof fn lemma_ends_lower(s: Seq<Page>, per_page: int, size: int, region_len: int, i: int)
    requires pages_wf(s, per_page, size, region_len), 0 <= i <= s.len()
    ensures HEADER_OFFSET <= start_of(s, i)
    decreases i
{
    if i > 0 {
        lemma_ends_lower(s, per_page, size, region_len, i - 1);
        assert(s[i - 1].start == start_of(s, i - 1));
    }
}

// the pages below the starting page index are full compressed pages; where the write starts
pub proof fn lemma_prefix(s: Seq<Page>, per_page: int, size: int, region_len: int, stored_len: int, spi: int)
    requires
        pages_wf(s, per_page, size, region_len), per_page > 0, 0 <= stored_len <= pages_len(s, per_page),
        spi == stored_len / per_page, spi <= s.len(),
    ensures
        forall|i: int| 0 <= i < spi ==> pcount(#[trigger] s[i]) == per_page && !praw(s[i]),
        spi == s.len() ==> stored_len % per_page == 0,
        spi < s.len() ==> stored_len % per_page <= pcount(s[spi]),
        stored_len == spi * per_page + stored_len % per_page,
        HEADER_OFFSET <= start_of(s, spi) <= region_len, region_len <= 0x1000_0000_0000,
        spi < s.len() ==> s[spi].start == start_of(s, spi) && pend(s[spi]) <= region_len,
{
    vstd::arithmetic::div_mod::lemma_fundamental_div_mod(stored_len, per_page);
    assert(stored_len == per_page * spi + stored_len % per_page);
    assert(per_page * spi == spi * per_page) by (nonlinear_arith);
    lemma_ends_monotone(s, per_page, size, region_len, spi);
    if spi < s.len() { lemma_ends_monotone(s, per_page, size, region_len, spi + 1); }
    if s.len() > 0 {
        let n = s.len() as int;
        let c = pcount(s.last());
        // stored_len <= (n-1)*pp + c with 0 < c <= pp
        if spi == n {
            assert(n * per_page <= stored_len) by (nonlinear_arith) requires stored_len == spi * per_page + stored_len % per_page, spi == n, stored_len % per_page >= 0;
            assert((n - 1) * per_page + per_page == n * per_page) by (nonlinear_arith);
            assert(c == per_page);
        } else if spi == n - 1 {
            assert(stored_len % per_page <= c) by { assert(spi * per_page == (n - 1) * per_page); }
        } else {
            assert(pcount(s[spi]) == per_page);
        }
        assert forall|i: int| 0 <= i < spi implies pcount(#[trigger] s[i]) == per_page && !praw(s[i]) by {
            if i == n - 1 { assert(spi == n); assert(s[i] == s.last()); }
        }
    }
}

// loop 2 of write(): after i of the new pages have been appended behind the kept prefix
pub open spec fn built(v: Seq<Page>, p0: Seq<Page>, spi: int, ps: Seq<(usize, usize, bool)>, i: int, truncate_at: int) -> bool {
    &&& v.len() == spi + i && 0 <= i <= ps.len() && 0 <= spi <= p0.len()
    &&& forall|j: int| 0 <= j < spi ==> v[j] == p0[j]
    &&& forall|j: int| spi <= j < spi + i ==> {
            &&& (#[trigger] v[j]).start == truncate_at + sum_bytes(ps.take(j - spi))
            &&& v[j].bytes == ps[j - spi].0 && pcount(v[j]) == ps[j - spi].1 && praw(v[j]) == ps[j - spi].2
        }
}
pub proof fn lemma_built_next_start(v: Seq<Page>, p0: Seq<Page>, spi: int, ps: Seq<(usize, usize, bool)>, i: int, truncate_at: int)
    requires built(v, p0, spi, ps, i, truncate_at), truncate_at == start_of(p0, spi)
    ensures start_of(v, v.len() as int) == truncate_at + sum_bytes(ps.take(i))
{
    if i == 0 {
        assert(ps.take(0).len() == 0);
        if spi > 0 { assert(v[spi - 1] == p0[spi - 1]); }
    } else {
        lemma_sum_take(ps, i - 1);
        assert(v[spi + i - 1].start == truncate_at + sum_bytes(ps.take(i - 1)));
    }
}
pub proof fn lemma_built_push(v: Seq<Page>, p0: Seq<Page>, spi: int, ps: Seq<(usize, usize, bool)>, i: int, truncate_at: int, pg: Page)
    requires
        built(v, p0, spi, ps, i, truncate_at), i < ps.len(), truncate_at == start_of(p0, spi),
        pg.start == start_of(v, v.len() as int), pg.bytes == ps[i].0, pcount(pg) == ps[i].1, praw(pg) == ps[i].2,
    ensures built(v.push(pg), p0, spi, ps, i + 1, truncate_at)
{
    lemma_built_next_start(v, p0, spi, ps, i, truncate_at);
    let v1 = v.push(pg);
    assert forall|j: int| spi <= j < spi + i + 1 implies {
        &&& (#[trigger] v1[j]).start == truncate_at + sum_bytes(ps.take(j - spi))
        &&& v1[j].bytes == ps[j - spi].0 && pcount(v1[j]) == ps[j - spi].1 && praw(v1[j]) == ps[j - spi].2
    } by { if j < spi + i { assert(v1[j] == v[j]); } }
    assert forall|j: int| 0 <= j < spi implies v1[j] == p0[j] by { assert(v1[j] == v[j]); }
}
// the finished table is well formed and holds exactly the kept full pages plus the encoded values
// the chain property of the finished table (split out of lemma_built_done to keep each query small)
pub proof fn lemma_built_chain(v: Seq<Page>, p0: Seq<Page>, spi: int, ps: Seq<(usize, usize, bool)>, truncate_at: int, per_page: int, size: int, region_len0: int)
    requires
        built(v, p0, spi, ps, ps.len() as int, truncate_at), truncate_at == start_of(p0, spi),
        pages_wf(p0, per_page, size, region_len0),
    ensures
        forall|i: int| 0 <= i < v.len() ==> (#[trigger] v[i]).start == (if i == 0 { HEADER_OFFSET as int } else { pend(v[i - 1]) }),
{
    assert forall|i: int| 0 <= i < v.len() implies (#[trigger] v[i]).start == (if i == 0 { HEADER_OFFSET as int } else { pend(v[i - 1]) }) by {
        if i < spi {
            assert(v[i] == p0[i]); if i > 0 { assert(v[i - 1] == p0[i - 1]); }
            assert(p0[i].start == start_of(p0, i));
        } else if i == spi {
            assert(ps.take(0).len() == 0);
            assert(sum_bytes(ps.take(0)) == 0);
            if spi > 0 { assert(v[spi - 1] == p0[spi - 1]); }
        } else {
            lemma_sum_take(ps, i - spi - 1);
            assert(v[i - 1].start == truncate_at + sum_bytes(ps.take(i - 1 - spi)));
            assert(v[i - 1].bytes == ps[i - 1 - spi].0);
        }
    }
}
pub proof fn lemma_built_full(v: Seq<Page>, p0: Seq<Page>, spi: int, ps: Seq<(usize, usize, bool)>, truncate_at: int, per_page: int, size: int)
    requires
        built(v, p0, spi, ps, ps.len() as int, truncate_at),
        forall|i: int| 0 <= i < spi ==> pcount(#[trigger] p0[i]) == per_page && !praw(p0[i]),
        sizes_ok(ps, per_page, size),
    ensures
        forall|i: int| 0 <= i < v.len() - 1 ==> pcount(#[trigger] v[i]) == per_page && !praw(v[i]),
{
    let n = ps.len() as int;
    assert forall|i: int| 0 <= i < v.len() - 1 implies pcount(#[trigger] v[i]) == per_page && !praw(v[i]) by {
        if i < spi { assert(v[i] == p0[i]); } else { assert(!ps[i - spi].2) by { if ps[i - spi].2 { assert(i - spi == n - 1); } } }
    }
}
pub proof fn lemma_built_done(v: Seq<Page>, p0: Seq<Page>, spi: int, ps: Seq<(usize, usize, bool)>, truncate_at: int, per_page: int, size: int, region_len0: int)
    requires
        built(v, p0, spi, ps, ps.len() as int, truncate_at), truncate_at == start_of(p0, spi),
        pages_wf(p0, per_page, size, region_len0), per_page > 0,
        forall|i: int| 0 <= i < spi ==> pcount(#[trigger] p0[i]) == per_page && !praw(p0[i]),
        sizes_ok(ps, per_page, size), truncate_at + sum_bytes(ps) <= 0x1000_0000_0000,
    ensures
        pages_wf(v, per_page, size, truncate_at + sum_bytes(ps)),
        pages_len(v, per_page) == spi * per_page + sum_vals(ps),
{
    let n = ps.len() as int;
    assert(ps.take(n) =~= ps);
    lemma_built_next_start(v, p0, spi, ps, n, truncate_at);
    lemma_built_chain(v, p0, spi, ps, truncate_at, per_page, size, region_len0);
    lemma_built_full(v, p0, spi, ps, truncate_at, per_page, size);
    if n > 0 {
        lemma_sum_vals_full(ps, per_page, size);
        assert(v.last() == v[spi + n - 1]);
        assert((spi + n - 1) * per_page == spi * per_page + (n - 1) * per_page) by (nonlinear_arith);
    } else {
        assert(sum_bytes(ps) == 0 && sum_vals(ps) == 0);
        if spi > 0 {
            assert(v.last() == p0[spi - 1]);
            assert((spi - 1) * per_page + per_page == spi * per_page) by (nonlinear_arith);
        }
    }
}

pub proof fn lemma_sum_prefix_le(ps: Seq<(usize, usize, bool)>, i: int)
    requires 0 <= i <= ps.len()
    ensures 0 <= sum_bytes(ps.take(i)) <= sum_bytes(ps)
    decreases ps.len() - i
{
    if i == ps.len() { assert(ps.take(i) =~= ps); lemma_sum_nonneg(ps); } else { lemma_sum_take(ps, i); lemma_sum_prefix_le(ps, i + 1); lemma_sum_nonneg(ps.take(i)); }
}
pub proof fn lemma_sum_nonneg(ps: Seq<(usize, usize, bool)>)
    ensures sum_bytes(ps) >= 0
    decreases ps.len()
{
    if ps.len() > 0 { lemma_sum_nonneg(ps.drop_last()); }
}
pub proof fn lemma_sizes_at(ps: Seq<(usize, usize, bool)>, per_page: int, size: int, i: int)
    requires sizes_ok(ps, per_page, size), 0 <= i < ps.len(), 0 < size <= 4096, per_page == 16384int / size
    ensures 0 < ps[i].1 <= per_page <= 16384, ps[i].0 < 0x1000_0000
{
    assert(per_page <= 16384) by (nonlinear_arith) requires 0 < size, per_page == 16384int / size;
}
// what lemma_prefix adds when the page the write starts in is raw: it is the last page and holds its values verbatim
pub proof fn lemma_raw_is_last(s: Seq<Page>, per_page: int, size: int, region_len: int, spi: int)
    requires pages_wf(s, per_page, size, region_len), 0 <= spi < s.len(), praw(s[spi])
    ensures spi == s.len() - 1, s[spi].bytes == pcount(s[spi]) * size, pcount(s[spi]) < per_page, pend(s[spi]) == region_len
{
    if spi < s.len() - 1 { assert(!praw(s[spi])); }
}
// fast path of write(): the raw last page grows in place
pub proof fn lemma_fast_path(p0: Seq<Page>, spi: int, per_page: int, size: int, region_len: int, stored_len: int, pushed: int, np: Page, v: Seq<Page>)
    requires
        pages_wf(p0, per_page, size, region_len), 0 < size <= 4096, per_page == 16384int / size,
        0 <= spi < p0.len(), praw(p0[spi]), spi == stored_len / per_page, 0 <= stored_len <= pages_len(p0, per_page),
        stored_len % per_page == pcount(p0[spi]), 0 <= pushed, stored_len % per_page + pushed < per_page,
        np.start == p0[spi].start, np.bytes == p0[spi].bytes + pushed * size, praw(np), pcount(np) == pcount(p0[spi]) + pushed,
        v == p0.take(spi).push(np), region_len + pushed * size <= 0x1000_0000_0000,
    ensures
        pages_wf(v, per_page, size, region_len + pushed * size),
        pages_len(v, per_page) == stored_len + pushed,
{
    assert(per_page > 0) by (nonlinear_arith) requires 0 < size <= 4096, per_page == 16384int / size;
    lemma_prefix(p0, per_page, size, region_len, stored_len, spi);
    lemma_raw_is_last(p0, per_page, size, region_len, spi);
    let n = pcount(np);
    let ps = seq![(np.bytes as usize, n as usize, true)];
    assert((pcount(p0[spi]) + pushed) * size == pcount(p0[spi]) * size + pushed * size) by (nonlinear_arith);
    assert(n * size <= 16384) by (nonlinear_arith) requires 0 <= n < per_page, 0 < size, per_page == 16384int / size;
    assert(ps.drop_last().len() == 0);
    assert(sum_bytes(ps) == sum_bytes(ps.drop_last()) + ps.last().0);
    assert(sum_vals(ps) == sum_vals(ps.drop_last()) + ps.last().1);
    assert(sum_bytes(ps.drop_last()) == 0 && sum_vals(ps.drop_last()) == 0);
    assert(ps.take(0).len() == 0);
    assert(sum_bytes(ps.take(0)) == 0);
    let ta = start_of(p0, spi);
    assert(built(v, p0, spi, ps, 1, ta)) by {
        assert forall|j: int| 0 <= j < spi implies v[j] == p0[j] by {}
        assert(ps.take(0).len() == 0);
    }
    lemma_built_done(v, p0, spi, ps, ta, per_page, size, region_len);
}
pub proof fn lemma_mul_bound(a: int, size: int)
    requires 0 <= a <= 0x200_0000_0000, 0 < size <= 4096
    ensures 0 <= a * size <= 0x200_0000_0000 * 4096
{
    assert(a * size <= 0x200_0000_0000 * 4096) by (nonlinear_arith) requires 0 <= a <= 0x200_0000_0000, 0 < size <= 4096;
    assert(0 <= a * size) by (nonlinear_arith) requires 0 <= a, 0 < size;
}
pub proof fn lemma_pp_bounds(size: int, per_page: int)
    requires 0 < size <= 4096, per_page == 16384int / size
    ensures 4 <= per_page <= 16384
{
    assert(4 <= per_page <= 16384) by (nonlinear_arith) requires 0 < size <= 4096, per_page == 16384int / size;
}

pub proof fn lemma_empty_sizes(ps: Seq<(usize, usize, bool)>, per_page: int, size: int)
    requires ps.len() == 0
    ensures sizes_ok(ps, per_page, size), sum_bytes(ps) == 0, sum_vals(ps) == 0
{ }

// ---- shared with the read-side units (U16, U20) ----
// where the scan stands inside the page table
pub proof fn lemma_page_of(s: Seq<Page>, per_page: int, size: int, region_len: int, pos: int, end: int)
    requires pages_wf(s, per_page, size, region_len), per_page > 0, 0 <= pos < end <= pages_len(s, per_page)
    ensures
        pos / per_page < s.len(),
        // the page holds every requested element that falls into it
        pcount(s[pos / per_page]) >= (if end - (pos / per_page) * per_page < per_page { end - (pos / per_page) * per_page } else { per_page }),
        pos / per_page < s.len() - 1 ==> pcount(s[pos / per_page]) == per_page,
        pos - (pos / per_page) * per_page < pcount(s[pos / per_page]),
{
    let pi = pos / per_page;
    let n = s.len() as int;
    vstd::arithmetic::div_mod::lemma_fundamental_div_mod(pos, per_page);
    assert(pos == per_page * pi + pos % per_page);
    assert(per_page * pi == pi * per_page) by (nonlinear_arith);
    assert(n > 0);
    // pos < pages_len = (n-1)*pp + count(last), count(last) <= pp  ==>  pi <= n-1
    assert(pi <= n - 1) by (nonlinear_arith) requires pos < (n - 1) * per_page + pcount(s.last()), pcount(s.last()) <= per_page, pos == pi * per_page + pos % per_page, 0 <= pos % per_page, per_page > 0;
    if pi < n - 1 { assert(pcount(s[pi]) == per_page); }
    else { assert(s[pi] == s.last()); assert(pi * per_page == (n - 1) * per_page); }
}


// consecutive pages are contiguous: the bytes of pages a..b (exclusive) are pend(s[b-1]) - s[a].start
pub proof fn lemma_run(s: Seq<Page>, per_page: int, size: int, region_len: int, a: int, b: int)
    requires pages_wf(s, per_page, size, region_len), 0 <= a < b <= s.len()
    ensures s[a].start <= pend(s[b - 1]) <= region_len, b < s.len() ==> s[b].start == pend(s[b - 1]), s[a].start >= HEADER_OFFSET
{
    lemma_ends_monotone(s, per_page, size, region_len, b);
    lemma_ends_monotone(s, per_page, size, region_len, a);
    lemma_starts_monotone(s, per_page, size, region_len, a, b);
    assert(s[a].start == start_of(s, a));
}
pub proof fn lemma_starts_monotone(s: Seq<Page>, per_page: int, size: int, region_len: int, a: int, b: int)
    requires pages_wf(s, per_page, size, region_len), 0 <= a <= b <= s.len()
    ensures start_of(s, a) <= start_of(s, b)
    decreases b - a
{
    if a < b {
        lemma_starts_monotone(s, per_page, size, region_len, a, b - 1);
        assert(s[b - 1].start == start_of(s, b - 1));
    }
}
