// U30 spec vocabulary: the page table region as bytes
pub open spec fn enc_page(p: Page) -> Seq<u8> { le64(p.start) + le32(p.bytes) + le32(p.values) }
pub open spec fn enc_pages(v: Seq<Page>) -> Seq<u8>
    decreases v.len()
{
    if v.len() == 0 { Seq::<u8>::empty() } else { enc_pages(v.drop_last()) + enc_page(v.last()) }
}
// the in-memory table and the region agree below the first changed entry (byte-level form of U7's `synced`)
pub open spec fn bsynced(vec: Seq<Page>, change_at: Option<usize>, table: Seq<u8>) -> bool {
    match change_at {
        None => table == enc_pages(vec),
        Some(c) => c <= vec.len() && c * 16 <= table.len() && table.take(c * 16) == enc_pages(vec.take(c as int)),
    }
}
pub proof fn lemma_enc_page_len(p: Page)
    ensures enc_page(p).len() == 16
{ broadcast use le64_props, le32_props; }
pub proof fn lemma_enc_len(v: Seq<Page>)
    ensures enc_pages(v).len() == v.len() * 16
    decreases v.len()
{
    if v.len() > 0 { lemma_enc_len(v.drop_last()); lemma_enc_page_len(v.last()); }
}
pub proof fn lemma_enc_push(v: Seq<Page>, p: Page)
    ensures enc_pages(v.push(p)) == enc_pages(v) + enc_page(p)
{
    assert(v.push(p).drop_last() =~= v);
}
pub proof fn lemma_enc_concat(a: Seq<Page>, b: Seq<Page>)
    ensures enc_pages(a + b) == enc_pages(a) + enc_pages(b)
    decreases b.len()
{
    if b.len() == 0 {
        assert(a + b =~= a);
        assert(enc_pages(a) + enc_pages(b) =~= enc_pages(a));
    } else {
        lemma_enc_concat(a, b.drop_last());
        assert((a + b).drop_last() =~= a + b.drop_last());
        assert((a + b).last() == b.last());
        assert(enc_pages(a) + (enc_pages(b.drop_last()) + enc_page(b.last())) =~= (enc_pages(a) + enc_pages(b.drop_last())) + enc_page(b.last()));
    }
}
// the i-th 16-byte entry of an encoded table is the encoding of the i-th page
pub proof fn lemma_enc_entry(v: Seq<Page>, i: int)
    requires 0 <= i < v.len()
    ensures enc_pages(v).len() == v.len() * 16, enc_pages(v).subrange(i * 16, i * 16 + 16) == enc_page(v[i])
    decreases v.len()
{
    lemma_enc_len(v);
    lemma_enc_len(v.drop_last());
    lemma_enc_page_len(v.last());
    if i == v.len() - 1 {
        assert(enc_pages(v).subrange(i * 16, i * 16 + 16) =~= enc_page(v.last()));
    } else {
        lemma_enc_entry(v.drop_last(), i);
        assert(enc_pages(v).subrange(i * 16, i * 16 + 16) =~= enc_pages(v.drop_last()).subrange(i * 16, i * 16 + 16));
    }
}
// a page is determined by its 16 bytes
pub proof fn lemma_enc_page_inj(p: Page, q: Page)
    requires enc_page(p) == enc_page(q)
    ensures p == q
{
    broadcast use le64_props, le32_props;
    let a = enc_page(p); let b = enc_page(q);
    assert(a.subrange(0, 8) =~= le64(p.start)); assert(b.subrange(0, 8) =~= le64(q.start));
    assert(a.subrange(8, 12) =~= le32(p.bytes)); assert(b.subrange(8, 12) =~= le32(q.bytes));
    assert(a.subrange(12, 16) =~= le32(p.values)); assert(b.subrange(12, 16) =~= le32(q.values));
    assert(un_le64(le64(p.start)) == un_le64(le64(q.start)));
    assert(un_le32(le32(p.bytes)) == un_le32(le32(q.bytes)));
    assert(un_le32(le32(p.values)) == un_le32(le32(q.values)));
}
// [C07.table-rt] the table read back is the table written: enc_pages is injective
pub proof fn lemma_table_roundtrip(a: Seq<Page>, b: Seq<Page>)
    requires enc_pages(a) == enc_pages(b)
    ensures a == b
{
    lemma_enc_len(a); lemma_enc_len(b);
    assert(a.len() == b.len());
    assert forall|i: int| 0 <= i < a.len() implies a[i] == b[i] by {
        lemma_enc_entry(a, i); lemma_enc_entry(b, i);
        lemma_enc_page_inj(a[i], b[i]);
    }
    assert(a =~= b);
}
// a byte string made of the encodings of v's entries, one after the other, is enc_pages(v)
pub proof fn lemma_enc_from_entries(v: Seq<Page>, t: Seq<u8>)
    requires t.len() == v.len() * 16, forall|i: int| 0 <= i < v.len() ==> enc_page(#[trigger] v[i]) == t.subrange(i * 16, i * 16 + 16)
    ensures enc_pages(v) == t
    decreases v.len()
{
    if v.len() == 0 {
        assert(t =~= Seq::<u8>::empty());
    } else {
        let v0 = v.drop_last();
        let m = (v.len() - 1) * 16;
        let t0 = t.take(m);
        assert forall|i: int| 0 <= i < v0.len() implies enc_page(#[trigger] v0[i]) == t0.subrange(i * 16, i * 16 + 16) by {
            assert(v0[i] == v[i]);
            assert(t0.subrange(i * 16, i * 16 + 16) =~= t.subrange(i * 16, i * 16 + 16));
        }
        lemma_enc_from_entries(v0, t0);
        assert(enc_page(v[v.len() - 1]) == t.subrange(m, m + 16));
        assert(t =~= t0 + t.subrange(m, m + 16));
    }
}
// all chunks of 16 have 16 bytes exactly when the length is a multiple of 16
pub proof fn lemma_chunks_full(len: int, n: int)
    requires len >= 0, n == n_chunks(len, 16), n > 0 ==> (if n * 16 <= len { n * 16 } else { len }) - (n - 1) * 16 >= 16
    ensures len == n * 16
{}
