#!/bin/bash
# Offline setup after a fresh restore: nothing to download. Warms the tools and (when present) builds the rac driver.
set -e
cd "$(dirname "$0")"
export CARGO_NET_OFFLINE=true
mkdir -p build evidence replay
verus --version >/dev/null
python3 -c "import sys; sys.path.insert(0,'tools'); import vx, driver"
if [ -f rac/Cargo.toml ]; then
  (cd rac && cargo build --release --offline 2>&1 | tail -3)
fi
echo setup ok
