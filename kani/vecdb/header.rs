
// ---- verif overlay ----
#[cfg(kani)]
mod verif_kani_header {
    use super::*;

    fn any_format() -> Format {
        let k: u8 = kani::any();
        kani::assume(k < 5);
        match k { 0 => Format::Bytes, 1 => Format::ZeroCopy, 2 => Format::Pco, 3 => Format::LZ4, _ => Format::Zstd }
    }

    // [C17.header-rt] every header value round-trips; layout is hv|vv|cv|stamp|format|zero padding
    #[kani::proof]
    #[kani::unwind(34)]
    fn header_roundtrip() {
        let h = HeaderInner {
            header_version: Version::new(kani::any()),
            vec_version: Version::new(kani::any()),
            computed_version: Version::new(kani::any()),
            stamp: Stamp::new(kani::any()),
            format: any_format(),
        };
        let b = h.to_bytes();
        let r = HeaderInner::from_bytes(&b);
        assert!(matches!(&r, Ok(g) if g.header_version == h.header_version && g.vec_version == h.vec_version
            && g.computed_version == h.computed_version && g.stamp == h.stamp && g.format == h.format));
        core::mem::forget(r);
        let mut i = 21;
        while i < HEADER_OFFSET { assert!(b[i] == 0); i += 1; }
    }

    // [C17.header-total] arbitrary bytes, any length <= 40: no panic; too short is WrongLength; Ok implies a valid format byte
    #[kani::proof]
    fn header_from_bytes_total() {
        let buf: [u8; 40] = kani::any();
        let n: usize = kani::any();
        kani::assume(n <= 40);
        let r = HeaderInner::from_bytes(&buf[..n]);
        match &r {
            Ok(h) => {
                assert!(n >= HEADER_OFFSET);
                assert!(matches!(buf[20], 0 | 1 | 64 | 65 | 66));
                assert!(h.format as u8 == buf[20]);
            }
            Err(Error::WrongLength { .. }) => assert!(n < HEADER_OFFSET),
            Err(Error::InvalidFormat(b)) => assert!(n >= HEADER_OFFSET && *b == buf[20] && !matches!(*b, 0 | 1 | 64 | 65 | 66)),
            Err(_) => assert!(false),
        }
        core::mem::forget(r);
    }
}
