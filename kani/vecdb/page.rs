
// ---- verif overlay (appended by /verif/tools/kanimod.py on a scratch copy; never committed to /repo) ----
#[cfg(kani)]
mod verif_kani_page {
    use super::*;
    use crate::Bytes;

    // [C17.page-rt] loop-free, full domain: every (start, bytes, values) triple round-trips bit-exactly
    #[kani::proof]
    fn page_roundtrip() {
        let p = Page { start: kani::any(), bytes: kani::any(), values: kani::any() };
        let b = p.to_bytes();
        let r = Page::from_bytes(&b);
        assert!(matches!(&r, Ok(q) if q.start == p.start && q.bytes == p.bytes && q.values == p.values));
        core::mem::forget(r);
        // exact layout: LE start | LE bytes | LE values
        assert!(b[0..8] == p.start.to_le_bytes() && b[8..12] == p.bytes.to_le_bytes() && b[12..16] == p.values.to_le_bytes());
    }

    // [C17.page-total] any slice of length <= 20: never panics; Ok iff at least 16 bytes
    #[kani::proof]
    fn page_from_bytes_total() {
        let buf: [u8; 20] = kani::any();
        let n: usize = kani::any();
        kani::assume(n <= 20);
        let r = Page::from_bytes(&buf[..n]);
        assert!(r.is_ok() == (n >= 16));
        core::mem::forget(r);
    }

    // [C07.rawflag] raw/compressed constructors and accessors are inverse for every count below 2^31
    #[kani::proof]
    fn page_flag_algebra() {
        let start: u64 = kani::any();
        let bytes: u32 = kani::any();
        let values: u32 = kani::any();
        kani::assume(values < (1u32 << 31));
        let r = Page::raw(start, bytes, values);
        assert!(r.is_raw() && r.values_count() == values && r.start == start && r.bytes == bytes);
        let c = Page::compressed(start, bytes, values);
        assert!(!c.is_raw() && c.values_count() == values);
    }
}
