
// ---- verif overlay ----
#[cfg(kani)]
mod verif_kani_format {
    use super::*;
    use crate::{Bytes, Error};

    // [C17.format] all 256 codes and all lengths 0..3: decode is total, Ok(f) iff exactly one byte that is a defined code, and re-encodes to it
    #[kani::proof]
    fn format_codec() {
        let buf: [u8; 3] = kani::any();
        let n: usize = kani::any();
        kani::assume(n <= 3);
        let r = Format::from_bytes(&buf[..n]);
        match &r {
            Ok(f) => { assert!(n == 1); assert!(f.to_bytes()[0] == buf[0]); }
            Err(Error::WrongLength { .. }) => assert!(n != 1),
            Err(Error::InvalidFormat(b)) => assert!(n == 1 && *b == buf[0] && !matches!(*b, 0 | 1 | 64 | 65 | 66)),
            Err(_) => assert!(false),
        }
        core::mem::forget(r);
    }
}
