
// ---- verif overlay: post-expansion instances of impl_bytes_for_numeric! / impl_bytes_for_array! ----
#[cfg(kani)]
mod verif_kani_numeric {
    use crate::{Bytes, Error};

    macro_rules! rt_int {
        ($name:ident, $t:ty, $n:expr) => {
            // round trip for every value; WrongLength iff the slice length differs from size_of
            #[kani::proof]
            fn $name() {
                let x: $t = kani::any();
                let b = x.to_bytes();
                assert!(b.len() == $n);
                let r0 = <$t as Bytes>::from_bytes(&b);
                assert!(matches!(&r0, Ok(v) if *v == x));
                core::mem::forget(r0);
                assert!(b == x.to_le_bytes());
                let buf: [u8; $n + 2] = kani::any();
                let n: usize = kani::any();
                kani::assume(n <= $n + 2);
                let r = <$t as Bytes>::from_bytes(&buf[..n]);
                match &r {
                    Ok(v) => { assert!(n == $n); assert!(v.to_bytes()[..] == buf[..$n]); }
                    Err(Error::WrongLength { expected, received }) => assert!(n != $n && *expected == $n && *received == n),
                    Err(_) => assert!(false),
                }
                core::mem::forget(r);
            }
        };
    }
    rt_int!(rt_u8, u8, 1);
    rt_int!(rt_u16, u16, 2);
    rt_int!(rt_u32, u32, 4);
    rt_int!(rt_u64, u64, 8);
    rt_int!(rt_u128, u128, 16);
    rt_int!(rt_usize, usize, 8);
    rt_int!(rt_i8, i8, 1);
    rt_int!(rt_i16, i16, 2);
    rt_int!(rt_i32, i32, 4);
    rt_int!(rt_i64, i64, 8);
    rt_int!(rt_i128, i128, 16);
    rt_int!(rt_isize, isize, 8);

    // floats: every bit pattern (NaN payloads included) survives
    #[kani::proof]
    fn rt_f32() {
        let bits: u32 = kani::any();
        let x = f32::from_bits(bits);
        let b = x.to_bytes();
        let r0 = <f32 as Bytes>::from_bytes(&b);
        assert!(matches!(&r0, Ok(v) if v.to_bits() == bits));
        core::mem::forget(r0);
        let buf: [u8; 6] = kani::any();
        let n: usize = kani::any();
        kani::assume(n <= 6);
        let r = <f32 as Bytes>::from_bytes(&buf[..n]);
        assert!(r.is_ok() == (n == 4));
        core::mem::forget(r);
    }
    #[kani::proof]
    fn rt_f64() {
        let bits: u64 = kani::any();
        let x = f64::from_bits(bits);
        let b = x.to_bytes();
        let r0 = <f64 as Bytes>::from_bytes(&b);
        assert!(matches!(&r0, Ok(v) if v.to_bits() == bits));
        core::mem::forget(r0);
        let buf: [u8; 10] = kani::any();
        let n: usize = kani::any();
        kani::assume(n <= 10);
        let r = <f64 as Bytes>::from_bytes(&buf[..n]);
        assert!(r.is_ok() == (n == 8));
        core::mem::forget(r);
    }

    macro_rules! rt_arr {
        ($name:ident, $n:expr) => {
            #[kani::proof]
            fn $name() {
                let x: [u8; $n] = kani::any();
                let r0 = <[u8; $n] as Bytes>::from_bytes(&x.to_bytes());
                assert!(matches!(&r0, Ok(v) if *v == x));
                core::mem::forget(r0);
                let buf: [u8; $n + 2] = kani::any();
                let n: usize = kani::any();
                kani::assume(n <= $n + 2);
                let r = <[u8; $n] as Bytes>::from_bytes(&buf[..n]);
                assert!(r.is_ok() == (n == $n));
                core::mem::forget(r);
            }
        };
    }
    rt_arr!(rt_arr1, 1);
    rt_arr!(rt_arr8, 8);
    rt_arr!(rt_arr33, 33);
    rt_arr!(rt_arr65, 65);

    // Version / Stamp wrappers
    #[kani::proof]
    fn rt_version_stamp() {
        let v = crate::Version::new(kani::any());
        let r1 = crate::Version::from_bytes(&v.to_bytes());
        assert!(matches!(&r1, Ok(w) if *w == v));
        core::mem::forget(r1);
        let s = crate::Stamp::new(kani::any());
        let r2 = crate::Stamp::from_bytes(&s.to_bytes());
        assert!(matches!(&r2, Ok(w) if *w == s));
        core::mem::forget(r2);
        let buf: [u8; 10] = kani::any();
        let n: usize = kani::any();
        kani::assume(n <= 10);
        let r3 = crate::Version::from_bytes(&buf[..n]);
        assert!(r3.is_ok() == (n == 4));
        core::mem::forget(r3);
        let r4 = crate::Stamp::from_bytes(&buf[..n]);
        assert!(r4.is_ok() == (n == 8));
        core::mem::forget(r4);
    }
}
